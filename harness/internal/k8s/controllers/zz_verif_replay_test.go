//go:build verif

package controllers

import (
	"testing"

	vr "go.universe.tf/metallb/internal/verifrt"
)

func TestVerifReplay(t *testing.T) { vr.RunReplay(t, verifHarnesses) }
