//go:build verif

package controllers

import (
	"context"

	"github.com/go-kit/log"
	metallbv1beta1 "go.universe.tf/metallb/api/v1beta1"
	"go.universe.tf/metallb/internal/config"
	vr "go.universe.tf/metallb/internal/verifrt"
	corev1 "k8s.io/api/core/v1"
	metav1 "k8s.io/apimachinery/pkg/apis/meta/v1"
	"k8s.io/apimachinery/pkg/types"
	ctrl "sigs.k8s.io/controller-runtime"
	"sigs.k8s.io/controller-runtime/pkg/client"
)

func init() {
	verifHarnesses["VerifPoolReconcile"] = func(a []int) { VerifPoolReconcile(a[0]) }
}

// vhListAPI is the cluster as PoolReconciler sees it: lists of pools, communities and namespaces, each
// listed in a symbolic order.
type vhListAPI struct {
	client.Client
	res  config.ClusterResources
	perm int
}

func (a *vhListAPI) List(_ context.Context, list client.ObjectList, _ ...client.ListOption) error {
	switch l := list.(type) {
	case *metallbv1beta1.IPAddressPoolList:
		l.Items = vhPermute3(a.res.Pools, a.perm)
	case *metallbv1beta1.CommunityList:
		l.Items = a.res.Communities
	case *corev1.NamespaceList:
		l.Items = a.res.Namespaces
	}
	return nil
}

// VerifPoolReconcile (C18, the reconciler's gate itself): PoolReconciler.Reconcile runs on a snapshot, the
// handler answers with a symbolic outcome; then an unrelated event arrives (same snapshot listed in another
// order, optionally with one more namespace no pool refers to) and Reconcile runs again. After an
// accepted load (handler answered Success or ReprocessAll, the latter is what controller.SetPools answers)
// the second run must not call the handler nor force a re-sync of all Services; after a failed load it
// must try again. variant 2: the event is a Namespace gaining the label a pool's namespace selector asks for.
func VerifPoolReconcile(variant int) {
	res := vhSnapshot(4)
	api := &vhListAPI{res: res}
	calls, reloads := 0, 0
	outcome := []SyncState{SyncStateSuccess, SyncStateReprocessAll, SyncStateError, SyncStateErrorNoRetry}[vr.Choose(4)]
	r := &PoolReconciler{Client: api, Logger: log.NewNopLogger(), Namespace: "metallb-system", ValidateConfig: config.DontValidate,
		Handler:     func(log.Logger, *config.Pools) SyncState { calls++; return outcome },
		ForceReload: func() { reloads++ }}
	req := ctrl.Request{NamespacedName: types.NamespacedName{Namespace: "metallb-system", Name: "pool-a"}}
	if variant == 2 {
		// the third pool serves the namespaces labelled tenant=gold; namespace team-a exists without the label
		api.res.Pools[2].Spec.AllocateTo = &metallbv1beta1.ServiceAllocation{NamespaceSelectors: []metav1.LabelSelector{{MatchLabels: map[string]string{"tenant": "gold"}}}}
		api.res.Namespaces = append(api.res.Namespaces, corev1.Namespace{ObjectMeta: metav1.ObjectMeta{Name: "team-a", Labels: map[string]string{}}})
	}
	_, err := r.Reconcile(context.Background(), req)
	vr.Assert(calls == 1, "the first load did not reach the handler exactly once")
	vr.Assert((err != nil) == (outcome == SyncStateError), "only a retryable handler error makes the reconciler ask for a retry")
	vr.Assert((reloads == 1) == (outcome == SyncStateReprocessAll), "Services are re-synced exactly when the handler asks for it")
	// an unrelated event
	api.perm = vr.Choose(6)
	if variant == 1 {
		api.res.Namespaces = append(api.res.Namespaces, corev1.Namespace{ObjectMeta: metav1.ObjectMeta{Name: "unrelated"}})
	}
	accepted := outcome == SyncStateSuccess || outcome == SyncStateReprocessAll
	first := outcome
	outcome = SyncStateReprocessAll
	if variant == 2 {
		// the namespace gets the label: the pool now serves it. The event is the Namespace's (cluster
		// scoped: the request carries no namespace); the new pool set must reach the handler and, as the
		// handler asks for it, every Service must be re-synced (the waiting ones of team-a get their turn)
		n := len(api.res.Namespaces) - 1
		api.res.Namespaces[n].Labels = map[string]string{"tenant": "gold"}
		before := reloads
		_, err = r.Reconcile(context.Background(), ctrl.Request{NamespacedName: types.NamespacedName{Name: "team-a"}})
		vr.Assert(err == nil, "reconcile of a Namespace event failed")
		vr.Assert(calls == 2, "a Namespace change that alters which pools serve it did not reach the handler")
		vr.Assert(reloads == before+1, "Services are not re-synced after a Namespace change altered the pools serving it")
		vr.Reach("namespace change loaded")
		return
	}
	_, _ = r.Reconcile(context.Background(), req)
	if accepted {
		vr.Assert(calls == 1 && reloads <= 1, "an event that leaves the configuration unchanged reached the handler again (reload and full re-sync of all Services)")
		vr.Reach("unchanged configuration skipped")
	} else if first == SyncStateError {
		// (whether a load refused for good - ErrorNoRetry - is offered again on the next event is not demanded)
		vr.Assert(calls == 2, "a configuration whose load failed was not loaded again on the next event")
		vr.Reach("failed load retried")
	}
}
