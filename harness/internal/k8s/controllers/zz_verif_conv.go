//go:build verif

package controllers

import (
	"reflect"
	"sync"

	"go.universe.tf/metallb/internal/allocator"
	"go.universe.tf/metallb/internal/ipfamily"
	metallbv1beta1 "go.universe.tf/metallb/api/v1beta1"
	"go.universe.tf/metallb/internal/config"
	vr "go.universe.tf/metallb/internal/verifrt"
	corev1 "k8s.io/api/core/v1"
	"sigs.k8s.io/controller-runtime/pkg/event"
	metav1 "k8s.io/apimachinery/pkg/apis/meta/v1"
)

var verifHarnesses = map[string]func(a []int){
	"VerifToConfigOrder": func(a []int) { VerifToConfigOrder(a[0], a[1], a[2]) },
	"VerifReloadGate":    func(a []int) { VerifReloadGate(a[0]) },
}

// vhNames3 returns three pairwise distinct names drawn symbolically from a 3-letter alphabet with the
// given prefix: every assignment of names to listing positions is covered.
func vhNames3(prefix string) [3]string {
	opts := []string{prefix + "a", prefix + "b", prefix + "c"}
	n0 := vr.PickString(opts...)
	n1 := vr.PickString(opts...)
	n2 := vr.PickString(opts...)
	vr.Assume(n0 != n1 && n0 != n2 && n1 != n2)
	return [3]string{n0, n1, n2}
}

func vhI32(v int32) *int32 { return &v }

// vhSnapshot builds a selector-free snapshot: 3 pools (two pinned to the same namespace), 3 L2
// advertisements and 3 BGP advertisements naming different pool subsets, 2 nodes, 2 namespaces.
// symKind selects which kind of object gets symbolic names (0 pools, 1 L2 advs, 2 BGP advs, 3 nodes).
// variant 0: a valid snapshot; variant 1: pool 2 is dual-stack and two BGP advertisements with
// different local preferences differ in aggregation length for IPv4 only (a conflict: must be rejected
// whatever the order); variant 2: pool 1's prefix lies inside pool 0's (must be rejected whatever the order);
// variant 3: a dual-stack pool with an IPv4 aggregation length shorter than its IPv4 prefix (must be rejected).
func vhSnapshot(symKind int) config.ClusterResources { return vhSnapshotV(symKind, 0) }

func vhSnapshotV(symKind, variant int) config.ClusterResources {
	pn := [3]string{"pool-a", "pool-b", "pool-c"}
	ln := [3]string{"l2-a", "l2-b", "l2-c"}
	bn := [3]string{"bgp-a", "bgp-b", "bgp-c"}
	nn := [3]string{"node-a", "node-b", "node-c"}
	switch symKind {
	case 0:
		pn = vhNames3("pool-")
	case 1:
		ln = vhNames3("l2-")
	case 2:
		bn = vhNames3("bgp-")
	case 3:
		nn = vhNames3("node-")
	}
	var r config.ClusterResources
	addrs := [][]string{{"10.1.0.0/24"}, {"10.2.0.0/24"}, {"10.3.0.0/24"}}
	if variant == 1 {
		addrs[2] = []string{"10.3.0.0/24", "fd00:3::/120"}
	}
	if variant == 3 {
		// dual-stack pool whose IPv4 prefix (/28) is more specific than an advertisement's IPv4
		// aggregation length (/24): must be rejected, in whatever order the pool's entries are visited
		addrs[2] = []string{"10.3.0.0/28", "fd00:3::/120"}
	}
	if variant == 2 {
		addrs[0] = []string{"10.1.0.0/16"}
		addrs[1] = []string{"10.1.2.0/24"}
	}
	for i := 0; i < 3; i++ {
		p := metallbv1beta1.IPAddressPool{ObjectMeta: metav1.ObjectMeta{Name: pn[i], Namespace: "metallb-system"},
			Spec: metallbv1beta1.IPAddressPoolSpec{Addresses: addrs[i]}}
		if i < 2 {
			p.Spec.AllocateTo = &metallbv1beta1.ServiceAllocation{Priority: i + 1, Namespaces: []string{"tenant"}}
			if variant == 4 {
				p.Spec.AllocateTo.Priority = 5 // both pools of the namespace carry the same explicit priority
			}
		}
		r.Pools = append(r.Pools, p)
	}
	ifs := []string{"eth0", "eth1", "eth2"}
	for i := 0; i < 3; i++ {
		l := metallbv1beta1.L2Advertisement{ObjectMeta: metav1.ObjectMeta{Name: ln[i], Namespace: "metallb-system"},
			Spec: metallbv1beta1.L2AdvertisementSpec{Interfaces: []string{ifs[i]}}}
		if i > 0 {
			// advertisement 0 names no pool (= all pools); the others name two pools each
			l.Spec.IPAddressPools = []string{pn[i], pn[(i+1)%3]}
		}
		if i == 1 {
			l.Spec.Interfaces = append(l.Spec.Interfaces, "eth9", "eth5") // several interfaces, not sorted
		}
		r.L2Advs = append(r.L2Advs, l)
	}
	for i := 0; i < 3; i++ {
		b := metallbv1beta1.BGPAdvertisement{ObjectMeta: metav1.ObjectMeta{Name: bn[i], Namespace: "metallb-system"},
			Spec: metallbv1beta1.BGPAdvertisementSpec{AggregationLength: vhI32(int32(32 - i)), AggregationLengthV6: vhI32(int32(128 - i)), LocalPref: uint32(100 + i)}}
		if variant == 1 {
			// same IPv6 aggregate, different IPv4 aggregate, different local preference
			b.Spec.AggregationLengthV6 = vhI32(128)
		}
		if variant == 3 && i == 2 {
			b.Spec.AggregationLength = vhI32(24)
			b.Spec.AggregationLengthV6 = vhI32(126)
		}
		if i > 0 {
			b.Spec.IPAddressPools = []string{pn[0], pn[i]}
		}
		r.BGPAdvs = append(r.BGPAdvs, b)
	}
	for i := 0; i < 3; i++ {
		r.Nodes = append(r.Nodes, corev1.Node{ObjectMeta: metav1.ObjectMeta{Name: nn[i]}})
	}
	r.Namespaces = []corev1.Namespace{{ObjectMeta: metav1.ObjectMeta{Name: "tenant"}}, {ObjectMeta: metav1.ObjectMeta{Name: "other"}}}
	return r
}

func vhPermute3[T any](in []T, perm int) []T {
	idx := [][]int{{0, 1, 2}, {0, 2, 1}, {1, 0, 2}, {1, 2, 0}, {2, 0, 1}, {2, 1, 0}}[perm]
	out := make([]T, len(in))
	for i, k := range idx {
		out[i] = in[k]
	}
	return out
}

// VerifToConfigOrder (C18): the configuration computed from a snapshot does not depend on the order in
// which the API server lists the objects, nor on map iteration order, and neither does acceptance.
// symKind: which kind has symbolic names; mapOrder: map iteration mode for the second computation.
func VerifToConfigOrder(symKind, mapOrder, variant int) {
	res := vhSnapshotV(symKind, variant)
	a, errA := toConfig(res, config.DontValidate)
	// the same snapshot listed in another order (every kind permuted by the same symbolic permutation)
	perm := 1 + vr.Choose(5)
	res2 := res
	res2.Pools = vhPermute3(res.Pools, perm)
	res2.L2Advs = vhPermute3(res.L2Advs, perm)
	res2.BGPAdvs = vhPermute3(res.BGPAdvs, perm)
	res2.Nodes = vhPermute3(res.Nodes, perm)
	vr.MapOrder(mapOrder)
	b, errB := toConfig(res2, config.DontValidate)
	vr.MapOrder(vr.OrderInsertion)
	vr.Assert((errA == nil) == (errB == nil), "acceptance of a snapshot depends on the listing order")
	valid := variant == 0 || variant == 4
	vr.Assert(valid || errA != nil, "an invalid snapshot was accepted")
	vr.Assert(valid || errB != nil, "an invalid snapshot was accepted in another listing / iteration order")
	if errA != nil {
		vr.Reach("snapshot rejected")
		return
	}
	vr.Assert(reflect.DeepEqual(a.Pools.ByName, b.Pools.ByName), "pools (with their advertisements) differ between two listing orders of the same snapshot")
	vr.Assert(reflect.DeepEqual(a.Pools.ByNamespace, b.Pools.ByNamespace), "namespace-pinned pool lists differ between two computations from the same snapshot")
	vr.Assert(reflect.DeepEqual(a.Pools.ByServiceSelector, b.Pools.ByServiceSelector), "service-selector pool lists differ")
	vr.Assert(reflect.DeepEqual(a, b), "configuration differs between two listing orders of the same snapshot")
	vr.Reach("snapshot accepted")
}

// VerifReloadGate (C18): what PoolReconciler does on two consecutive reconciles of an unchanged
// snapshot: compute the configuration, hand its pools to the allocator (the handler), let the
// allocator work, compute the configuration again and compare with reflect.DeepEqual. The second
// computation must be equal to the remembered one, otherwise every event reloads everything.
func VerifReloadGate(use int) {
	res := vhSnapshot(4)
	if use == 2 {
		res.Pools[2].Spec.Addresses = []string{"fd00:3::/120"}
	}
	remembered, err := toConfig(res, config.DontValidate)
	vr.Assert(err == nil, "snapshot rejected")
	a := allocator.New(func(string) {})
	a.SetPools(remembered.Pools)
	if use >= 1 {
		svc := &corev1.Service{ObjectMeta: metav1.ObjectMeta{Namespace: "other", Name: "svc"}}
		fam := ipfamily.IPv4
		if use == 2 {
			fam = ipfamily.IPv6
		}
		_, aerr := a.Allocate("other/svc", svc, fam, []allocator.Port{{Proto: "TCP", Port: 80}}, "", "")
		vr.Assert(aerr == nil, "allocation from the unpinned pool failed")
	}
	again, err2 := toConfig(res, config.DontValidate)
	vr.Assert(err2 == nil, "snapshot rejected the second time")
	vr.Assert(reflect.DeepEqual(remembered, again), "an unchanged snapshot no longer equals the remembered configuration after its pools were used by the allocator")
	vr.Reach("gate checked")
}

func init() {
	verifHarnesses["VerifFRRK8sDebouncer"] = func(a []int) { VerifFRRK8sDebouncer(a[0], a[1]) }
}

// VerifFRRK8sDebouncer (C19, frr-k8s variant): every "configuration changed" signal is eventually
// followed by a reload event, signals within the debounce window are coalesced (at most one event per
// expiry), and the signalling side is never blocked indefinitely. The reload events are consumed by
// a separate goroutine, as controller-runtime's channel source does. busy=1: that consumer is not always
// at the channel - it picks up one event each time the environment lets it (it is starting, or still
// distributing the previous event); signals are then submitted by goroutines of their own.
func VerifFRRK8sDebouncer(steps, busy int) {
	in := make(chan struct{})
	out := make(chan event.GenericEvent)
	debouncer(in, out, vr.TimerDuration)
	var mu sync.Mutex
	signalsSinceEvent := 0
	events := 0
	gate := make(chan struct{}, steps+8)
	go func() {
		for {
			if busy == 1 {
				<-gate
			}
			if _, ok := <-out; !ok {
				return
			}
			mu.Lock()
			events++
			signalsSinceEvent = 0
			mu.Unlock()
		}
	}()
	expiries := 0
	for i := 0; i < steps; i++ {
		switch vr.Choose(2 + busy) {
		case 0: // the desired configuration changed
			if busy == 1 {
				go func() { in <- struct{}{} }()
			} else {
				in <- struct{}{}
			}
			mu.Lock()
			signalsSinceEvent++
			mu.Unlock()
			vr.Yield()
		case 1: // the debounce timer expires
			vr.Assume(vr.TimerPending())
			vr.FireTimer()
			expiries++
			vr.Yield()
		case 2: // the consumer comes back to the channel for one event
			gate <- struct{}{}
			vr.Yield()
		}
	}
	for k := 0; k < 2+busy; k++ {
		if busy == 1 {
			gate <- struct{}{}
			vr.Yield()
		}
		vr.FireTimer()
		vr.Yield()
	}
	mu.Lock()
	vr.Assert(signalsSinceEvent == 0, "a configuration change was never followed by a reload event")
	vr.Assert(events <= expiries+2+busy, "more reload events than timer expiries: changes were not coalesced")
	mu.Unlock()
	vr.Reach("frr-k8s debouncer settled")
}
