//go:build verif

package controllers

import (
	"context"
	"errors"

	"github.com/go-kit/log"
	"go.universe.tf/metallb/api/v1beta1"
	"go.universe.tf/metallb/internal/allocator"
	vr "go.universe.tf/metallb/internal/verifrt"
	apierrors "k8s.io/apimachinery/pkg/api/errors"
	metav1 "k8s.io/apimachinery/pkg/apis/meta/v1"
	"k8s.io/apimachinery/pkg/runtime/schema"
	"k8s.io/apimachinery/pkg/types"
	ctrl "sigs.k8s.io/controller-runtime"
	"sigs.k8s.io/controller-runtime/pkg/client"
)

func init() {
	verifHarnesses["VerifPoolStatus"] = func(a []int) { VerifPoolStatus() }
}

// vhPoolAPI: one IPAddressPool object; status updates fail (conflict or another error) on symbolic attempts.
type vhPoolAPI struct {
	client.Client
	pool    *v1beta1.IPAddressPool
	failing int
	kind    int // 0 conflict, 1 other error
	writes  int
}

func (a *vhPoolAPI) Get(_ context.Context, key client.ObjectKey, obj client.Object, _ ...client.GetOption) error {
	if a.pool == nil || key.Name != a.pool.Name {
		return apierrors.NewNotFound(schema.GroupResource{Resource: "ipaddresspools"}, key.Name)
	}
	a.pool.DeepCopyInto(obj.(*v1beta1.IPAddressPool))
	return nil
}

type vhPoolStatusWriter struct {
	client.SubResourceWriter
	a *vhPoolAPI
}

func (a *vhPoolAPI) Status() client.SubResourceWriter { return vhPoolStatusWriter{a: a} }

func (w vhPoolStatusWriter) Update(_ context.Context, obj client.Object, _ ...client.SubResourceUpdateOption) error {
	if w.a.failing > 0 {
		w.a.failing--
		if w.a.kind == 0 {
			return apierrors.NewConflict(schema.GroupResource{Resource: "ipaddresspools"}, w.a.pool.Name, errors.New("the object has been modified"))
		}
		return errors.New("injected status write failure")
	}
	w.a.writes++
	w.a.pool.Status = obj.(*v1beta1.IPAddressPool).Status
	return nil
}

// VerifPoolStatus (C11, publication of the counters): PoolStatusReconciler.Reconcile copies the allocator's
// counters (symbolic) into IPAddressPool.status; the status write fails on 0..2 attempts with a conflict or
// another error. The request is retried while Reconcile reports an error (what controller-runtime does);
// once it reports success the published status equals the counters - a failed write is never reported as
// done.
func VerifPoolStatus() {
	api := &vhPoolAPI{pool: &v1beta1.IPAddressPool{ObjectMeta: metav1.ObjectMeta{Name: "p0", Namespace: "metallb-system"}}}
	// the status published so far is arbitrary (an earlier state of the pool)
	api.pool.Status = v1beta1.IPAddressPoolStatus{AssignedIPv4: int64(vr.Byte() & 3), AvailableIPv4: int64(vr.Byte() & 3), AssignedIPv6: int64(vr.Byte() & 1), AvailableIPv6: int64(vr.Byte() & 3)}
	c := allocator.PoolCounters{AssignedIPv4: int64(vr.Byte() & 3), AvailableIPv4: int64(vr.Byte() & 3), AssignedIPv6: int64(vr.Byte() & 1), AvailableIPv6: int64(vr.Byte() & 1)}
	api.failing = vr.Choose(3)
	api.kind = vr.Choose(2)
	r := &PoolStatusReconciler{Client: api, Logger: log.NewNopLogger(), CountersFetcher: func(string) allocator.PoolCounters { return c }}
	req := ctrl.Request{NamespacedName: types.NamespacedName{Namespace: "metallb-system", Name: "p0"}}
	for try := 0; ; try++ {
		vr.Assert(try < 4, "the status update is retried without end although writes succeed again")
		if try >= 4 {
			vr.Stop()
		}
		if _, err := r.Reconcile(context.Background(), req); err == nil {
			break
		}
	}
	st := api.pool.Status
	vr.Assert(st.AssignedIPv4 == c.AssignedIPv4 && st.AvailableIPv4 == c.AvailableIPv4 && st.AssignedIPv6 == c.AssignedIPv6 && st.AvailableIPv6 == c.AvailableIPv6,
		"the reconciler reported success but the published pool status differs from the allocator's counters")
	vr.Reach("pool status published")
}
