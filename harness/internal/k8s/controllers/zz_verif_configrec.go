//go:build verif

package controllers

import (
	"context"

	"github.com/go-kit/log"
	metallbv1beta1 "go.universe.tf/metallb/api/v1beta1"
	metallbv1beta2 "go.universe.tf/metallb/api/v1beta2"
	"go.universe.tf/metallb/internal/config"
	vr "go.universe.tf/metallb/internal/verifrt"
	corev1 "k8s.io/api/core/v1"
	apierrors "k8s.io/apimachinery/pkg/api/errors"
	metav1 "k8s.io/apimachinery/pkg/apis/meta/v1"
	"k8s.io/apimachinery/pkg/runtime/schema"
	"k8s.io/apimachinery/pkg/types"
	ctrl "sigs.k8s.io/controller-runtime"
	"sigs.k8s.io/controller-runtime/pkg/client"
)

func init() {
	verifHarnesses["VerifConfigReconcile"] = func(a []int) { VerifConfigReconcile(a[0]) }
}

// vhFullAPI is the cluster as ConfigReconciler sees it: every kind it lists, each list in a symbolic order;
// there is no bgpextras ConfigMap.
type vhFullAPI struct {
	client.Client
	res     config.ClusterResources
	secrets []corev1.Secret
	perm    int
}

func (a *vhFullAPI) List(_ context.Context, list client.ObjectList, _ ...client.ListOption) error {
	switch l := list.(type) {
	case *metallbv1beta1.IPAddressPoolList:
		l.Items = vhPermute3(a.res.Pools, a.perm)
	case *metallbv1beta2.BGPPeerList:
		l.Items = a.res.Peers
	case *metallbv1beta1.BFDProfileList:
		l.Items = a.res.BFDProfiles
	case *metallbv1beta1.L2AdvertisementList:
		l.Items = vhPermute3(a.res.L2Advs, a.perm)
	case *metallbv1beta1.BGPAdvertisementList:
		l.Items = vhPermute3(a.res.BGPAdvs, a.perm)
	case *metallbv1beta1.CommunityList:
		l.Items = a.res.Communities
	case *corev1.SecretList:
		l.Items = a.secrets
	case *corev1.NodeList:
		l.Items = vhPermute3(a.res.Nodes, a.perm)
	case *corev1.NamespaceList:
		l.Items = a.res.Namespaces
	}
	return nil
}

func (a *vhFullAPI) Get(_ context.Context, key client.ObjectKey, _ client.Object, _ ...client.GetOption) error {
	return apierrors.NewNotFound(schema.GroupResource{Resource: "configmaps"}, key.Name)
}

// VerifConfigReconcile (C18, the ConfigReconciler's gate itself - the speaker's and the controller's
// configuration loader): Reconcile runs on a snapshot, the handler answers with a symbolic outcome; then
// an unrelated event arrives (the same snapshot listed in another order; variant 1: plus a Secret no peer
// refers to) and Reconcile runs again. After an accepted load (Success, or ReprocessAll - what the
// production handlers answer) the second run must not reach the handler nor force a re-sync of all
// Services; after a retryable failure it must try again.
func VerifConfigReconcile(variant int) {
	api := &vhFullAPI{res: vhSnapshot(4)}
	calls, reloads := 0, 0
	outcome := []SyncState{SyncStateSuccess, SyncStateReprocessAll, SyncStateError, SyncStateErrorNoRetry}[vr.Choose(4)]
	r := &ConfigReconciler{Client: api, Logger: log.NewNopLogger(), Namespace: "metallb-system", ValidateConfig: config.DontValidate,
		Handler:     func(log.Logger, *config.Config) SyncState { calls++; return outcome },
		ForceReload: func() { reloads++ }}
	req := ctrl.Request{NamespacedName: types.NamespacedName{Namespace: "metallb-system", Name: "pool-a"}}
	_, err := r.Reconcile(context.Background(), req)
	vr.Assert(calls == 1, "the first load did not reach the handler exactly once")
	vr.Assert((err != nil) == (outcome == SyncStateError), "only a retryable handler error makes the reconciler ask for a retry")
	vr.Assert((reloads == 1) == (outcome == SyncStateReprocessAll), "Services are re-synced exactly when the handler asks for it")
	// an unrelated event
	api.perm = vr.Choose(6)
	if variant == 1 {
		api.secrets = append(api.secrets, corev1.Secret{ObjectMeta: metav1.ObjectMeta{Name: "unrelated", Namespace: "metallb-system"}})
		req.Name = "unrelated"
	}
	retry := outcome == SyncStateError
	if outcome == SyncStateErrorNoRetry {
		return // whether a configuration refused for good is offered again on the next event is not demanded
	}
	outcome = SyncStateReprocessAll
	before := reloads
	_, _ = r.Reconcile(context.Background(), req)
	if !retry {
		vr.Assert(calls == 1 && reloads == before, "an event that leaves the configuration unchanged reached the handler again (reload and full re-sync of all Services)")
		vr.Reach("unchanged configuration skipped by the config reconciler")
	} else {
		vr.Assert(calls == 2, "a configuration whose load failed was not loaded again on the next event")
		vr.Reach("failed configuration load retried")
	}
}
