//go:build verif

package controllers

import (
	"context"
	"reflect"

	"github.com/go-kit/log"
	frrv1beta1 "github.com/metallb/frr-k8s/api/v1beta1"
	"go.universe.tf/metallb/internal/logging"
	vr "go.universe.tf/metallb/internal/verifrt"
	apierrors "k8s.io/apimachinery/pkg/api/errors"
	metav1 "k8s.io/apimachinery/pkg/apis/meta/v1"
	"k8s.io/apimachinery/pkg/runtime/schema"
	"k8s.io/apimachinery/pkg/types"
	ctrl "sigs.k8s.io/controller-runtime"
	"sigs.k8s.io/controller-runtime/pkg/client"
)

func init() {
	verifHarnesses["VerifFRRK8sReconcile"] = func(a []int) { VerifFRRK8sReconcile() }
}

// vhFRRAPI: the FRRConfiguration object of this node in the API server.
type vhFRRAPI struct {
	client.Client
	obj    *frrv1beta1.FRRConfiguration
	writes int
}

func (a *vhFRRAPI) Get(_ context.Context, key client.ObjectKey, obj client.Object, _ ...client.GetOption) error {
	if a.obj == nil || a.obj.Name != key.Name {
		return apierrors.NewNotFound(schema.GroupResource{Resource: "frrconfigurations"}, key.Name)
	}
	a.obj.DeepCopyInto(obj.(*frrv1beta1.FRRConfiguration))
	return nil
}
func (a *vhFRRAPI) Create(_ context.Context, obj client.Object, _ ...client.CreateOption) error {
	a.obj = obj.(*frrv1beta1.FRRConfiguration).DeepCopy()
	a.writes++
	return nil
}
func (a *vhFRRAPI) Update(_ context.Context, obj client.Object, _ ...client.UpdateOption) error {
	a.obj = obj.(*frrv1beta1.FRRConfiguration).DeepCopy()
	a.writes++
	return nil
}
func (a *vhFRRAPI) Delete(_ context.Context, obj client.Object, _ ...client.DeleteOption) error {
	a.obj = nil
	return nil
}

// VerifFRRK8sReconcile (C15, the resource handed to frr-k8s): the reconciler writes the desired
// FRRConfiguration (with a neighbor password or secret reference) to the API server; log level symbolic.
// After any number of reconciles (its own object's watch events included) the stored spec equals the
// desired one handed over by the session manager, which itself is never altered, and an unchanged desired
// state is not written again.
func VerifFRRK8sReconcile() {
	pw := vr.PickString("", "secret-pw")
	nb := frrv1beta1.Neighbor{Address: "192.168.1.1", ASN: 64600, Password: pw}
	if pw == "" {
		nb.PasswordSecret = frrv1beta1.SecretReference{Name: "pw", Namespace: "metallb-system"}
	}
	desired := frrv1beta1.FRRConfiguration{ObjectMeta: metav1.ObjectMeta{Name: "metallb-node-me", Namespace: "frr-k8s-system"},
		Spec: frrv1beta1.FRRConfigurationSpec{BGP: frrv1beta1.BGPConfig{Routers: []frrv1beta1.Router{{ASN: 64512, Neighbors: []frrv1beta1.Neighbor{nb}}}}}}
	want := desired.DeepCopy()
	api := &vhFRRAPI{}
	lvl := logging.Level(logging.LevelInfo)
	if vr.Bool() {
		lvl = logging.Level(logging.LevelDebug)
	}
	r := &FRRK8sReconciler{Client: api, Logger: log.NewNopLogger(), LogLevel: lvl, NodeName: "node-me", FRRK8sNamespace: "frr-k8s-system"}
	r.desiredConfiguration = &desired
	req := ctrl.Request{NamespacedName: types.NamespacedName{Namespace: "frr-k8s-system", Name: "metallb-node-me"}}
	for i := 0; i < 3; i++ {
		_, err := r.Reconcile(context.Background(), req)
		vr.Assert(err == nil, "Reconcile failed")
		vr.Assert(reflect.DeepEqual(r.desiredConfiguration.Spec, want.Spec), "the desired configuration was altered by reconciling it")
		vr.Assert(api.obj != nil && reflect.DeepEqual(api.obj.Spec, want.Spec), "the stored FRRConfiguration differs from the desired one")
		nbs := api.obj.Spec.BGP.Routers[0].Neighbors[0]
		vr.Assert(!(nbs.Password != "" && nbs.PasswordSecret.Name != ""), "both a password and a secret reference in the stored resource")
	}
	vr.Assert(api.writes == 1, "an unchanged desired configuration was written again")
	vr.Reach("frr-k8s resource reconciled")
}
