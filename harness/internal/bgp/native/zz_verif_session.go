//go:build verif

package native

import (
	"errors"
	"io"
	"net"
	"os"
	"sync"
	"syscall"
	"time"

	"github.com/go-kit/log"
	"go.universe.tf/metallb/internal/bgp"
	"go.universe.tf/metallb/internal/bgp/community"
	vr "go.universe.tf/metallb/internal/verifrt"
)

func init() {
	verifHarnesses["VerifSession"] = func(a []int) { VerifSession(a[0], a[1], a[2]) }
}

// ---- the peer: an in-memory connection that decodes what the session writes into a routing table

type vhRoute struct {
	lp    uint32
	comms []uint32
}

type vhPeerConn struct {
	in       []byte // bytes the peer sends (its OPEN, then nothing)
	closedCh chan struct{}
	closed   bool
	table    map[string]vhRoute // prefix -> attributes, as learnt from UPDATEs on this connection
	msgs     int
	failAt   int // the n-th write fails (0 = none)
	writes   int
	bad      string
	fb       bool // this connection's OPEN carried the 4-byte ASN capability
	tcp      net.Conn
}

type vhWorldBGP struct {
	conns     []*vhPeerConn
	dials     int
	peerASN   uint32
	peerFB    bool
	dialFails int
	failPlan  []int // write index that fails, per connection
	fbPerConn bool  // the peer decides per connection whether it announces the 4-byte ASN capability
	ebgp      bool
	mu        sync.Mutex
	ln        net.Listener
	dummies   []net.Conn
}

var vhW *vhWorldBGP

// vhDial is called by the engine in place of dialMD5 (TCP-MD5 dialing is the environment).
func vhDial() (net.Conn, error) {
	w := vhW
	w.dials++
	time.Sleep(time.Millisecond) // establishing a connection takes time: the others run meanwhile
	if w.dialFails > 0 {
		w.dialFails--
		return nil, errors.New("connection refused")
	}
	c := &vhPeerConn{closedCh: make(chan struct{}), table: map[string]vhRoute{}}
	if len(w.conns) < len(w.failPlan) {
		c.failAt = w.failPlan[len(w.conns)]
	}
	c.in = w.openFor(c)
	w.conns = append(w.conns, c)
	return c, nil
}

// openFor returns the bytes the peer sends on a new connection: its OPEN and a KEEPALIVE.
func (w *vhWorldBGP) openFor(c *vhPeerConn) []byte {
	c.fb = w.peerFB
	if w.fbPerConn {
		c.fb = vr.Bool()
	}
	// the peer's OPEN: 2-byte ASN field (AS_TRANS when above 65535), hold time 90, optional 4-byte ASN capability
	as16 := uint16(w.peerASN)
	if w.peerASN > 65535 {
		as16 = 23456
	}
	body := []byte{4, byte(as16 >> 8), byte(as16), 0, 90, 10, 0, 0, 1}
	var opts []byte
	if c.fb {
		a := w.peerASN
		caps := []byte{65, 4, byte(a >> 24), byte(a >> 16), byte(a >> 8), byte(a)}
		opts = append([]byte{2, byte(len(caps))}, caps...)
	}
	body = append(body, byte(len(opts)))
	body = append(body, opts...)
	total := 19 + len(body)
	msg := make([]byte, 16)
	for i := range msg {
		msg[i] = 0xff
	}
	msg = append(msg, byte(total>>8), byte(total), 1)
	out := append(msg, body...)
	// and a KEEPALIVE accepting our OPEN
	ka := make([]byte, 16)
	for i := range ka {
		ka[i] = 0xff
	}
	return append(out, append(ka, 0, 19, 4)...)
}

func (c *vhPeerConn) Read(p []byte) (int, error) {
	if len(c.in) > 0 {
		n := copy(p, c.in)
		c.in = c.in[n:]
		return n, nil
	}
	<-c.closedCh // nothing more to read until the connection goes away
	return 0, io.EOF
}

func (c *vhPeerConn) Write(p []byte) (int, error) {
	if c.closed {
		return 0, errors.New("write on closed connection")
	}
	c.writes++
	if c.failAt != 0 && c.writes == c.failAt {
		// the connection breaks while the session is writing
		c.drop()
		return 0, errors.New("connection reset by peer")
	}
	c.decode(p)
	return len(p), nil
}

func (c *vhPeerConn) drop() {
	if !c.closed {
		c.closed = true
		close(c.closedCh)
		if c.tcp != nil {
			c.tcp.Close()
		}
	}
}

func (c *vhPeerConn) Close() error                     { c.drop(); return nil }
func (c *vhPeerConn) LocalAddr() net.Addr              { return &net.TCPAddr{IP: net.IP{10, 0, 0, 9}, Port: 40000} }
func (c *vhPeerConn) RemoteAddr() net.Addr             { return &net.TCPAddr{IP: net.IP{10, 0, 0, 1}, Port: 179} }
func (c *vhPeerConn) SetDeadline(time.Time) error      { return nil }
func (c *vhPeerConn) SetReadDeadline(time.Time) error  { return nil }
func (c *vhPeerConn) SetWriteDeadline(time.Time) error { return nil }

// decode interprets one BGP message (the session writes whole messages) like a peer building its table.
func (c *vhPeerConn) decode(b []byte) {
	c.msgs++
	if len(b) < 19 || int(vhU16(b[16:18])) != len(b) {
		c.bad = "malformed message"
		return
	}
	if b[18] != 2 {
		return // OPEN, KEEPALIVE
	}
	wl := int(vhU16(b[19:21]))
	pos := 21
	for pos < 21+wl {
		l := int(b[pos])
		n := (l + 7) / 8
		ip := make(net.IP, 4)
		copy(ip, b[pos+1:pos+1+n])
		delete(c.table, (&net.IPNet{IP: ip, Mask: net.CIDRMask(l, 32)}).String())
		pos += 1 + n
	}
	al := int(vhU16(b[pos : pos+2]))
	pos += 2
	end := pos + al
	var r vhRoute
	for pos < end {
		typ, l := b[pos+1], int(b[pos+2])
		v := b[pos+3 : pos+3+l]
		switch typ {
		case 2:
			// AS_PATH: empty for iBGP; for eBGP one segment with one ASN in 2 or 4 bytes according to
			// what this connection's OPEN announced
			if l != 0 {
				want := 4
				if c.fb {
					want = 6
				}
				if l != want {
					c.bad = "AS_PATH width does not follow the capability the peer announced on this connection"
				}
			}
		case 5:
			r.lp = vhU32(v)
		case 8:
			for i := 0; i+4 <= l; i += 4 {
				r.comms = append(r.comms, vhU32(v[i:]))
			}
		}
		pos += 3 + l
	}
	for pos < len(b) {
		l := int(b[pos])
		n := (l + 7) / 8
		ip := make(net.IP, 4)
		copy(ip, b[pos+1:pos+1+n])
		c.table[(&net.IPNet{IP: ip, Mask: net.CIDRMask(l, 32)}).String()] = r
		pos += 1 + n
	}
}

// ---- native mode: a real loopback TCP peer playing the same role (used when a solver model is replayed)

func (w *vhWorldBGP) listen() int {
	ln, err := net.Listen("tcp4", "127.0.0.1:0")
	if err != nil {
		panic(err)
	}
	w.ln = ln
	return w.serve(0, 0)
}

// listenSlow (native race retry): a peer that is slow to take connections. The listening socket has a
// backlog of 0 and its accept queue is filled with a dummy connection, so the session's SYN is dropped and
// retransmitted after about a second; accepting starts after delay. Establishing the connection thus takes
// about a second - the time the in-memory dial of the engine world blocks.
func (w *vhWorldBGP) listenSlow(delay time.Duration) int {
	fd, err := syscall.Socket(syscall.AF_INET, syscall.SOCK_STREAM, 0)
	if err != nil {
		panic(err)
	}
	_ = syscall.SetsockoptInt(fd, syscall.SOL_SOCKET, syscall.SO_REUSEADDR, 1)
	if err := syscall.Bind(fd, &syscall.SockaddrInet4{Addr: [4]byte{127, 0, 0, 1}}); err != nil {
		panic(err)
	}
	if err := syscall.Listen(fd, 0); err != nil {
		panic(err)
	}
	f := os.NewFile(uintptr(fd), "slow-listener")
	ln, err := net.FileListener(f)
	f.Close()
	if err != nil {
		panic(err)
	}
	w.ln = ln
	dummies := 0
	for i := 0; i < 4; i++ {
		c, err := net.DialTimeout("tcp4", ln.Addr().String(), 150*time.Millisecond)
		if err != nil {
			break // the queue is full: further connection attempts wait for a retransmission
		}
		w.dummies = append(w.dummies, c)
		dummies++
	}
	return w.serve(dummies, delay)
}

// serve accepts connections (after delay; the first skip ones are dummies and are discarded).
func (w *vhWorldBGP) serve(skip int, delay time.Duration) int {
	ln := w.ln
	go func() {
		time.Sleep(delay)
		for {
			tc, err := ln.Accept()
			if err != nil {
				return
			}
			if skip > 0 {
				skip--
				tc.Close()
				continue
			}
			w.mu.Lock()
			w.dials++
			if w.dialFails > 0 {
				// the peer refuses this attempt
				w.dialFails--
				w.mu.Unlock()
				tc.Close()
				continue
			}
			c := &vhPeerConn{closedCh: make(chan struct{}), table: map[string]vhRoute{}, tcp: tc}
			hello := w.openFor(c)
			w.conns = append(w.conns, c)
			w.mu.Unlock()
			go func() {
				defer c.drop()
				hdr := make([]byte, 19)
				first := true
				for {
					if _, err := io.ReadFull(tc, hdr); err != nil {
						return
					}
					n := int(vhU16(hdr[16:18]))
					if n < 19 {
						return
					}
					msg := make([]byte, n)
					copy(msg, hdr)
					if _, err := io.ReadFull(tc, msg[19:]); err != nil {
						return
					}
					w.mu.Lock()
					c.decode(msg)
					w.mu.Unlock()
					if first {
						first = false
						if _, err := tc.Write(hello); err != nil {
							return
						}
					}
				}
			}()
		}
	}()
	return ln.Addr().(*net.TCPAddr).Port
}

// ---- requested route sets

var vhPfx = []string{"10.1.0.0/24", "10.2.0.0/24", "10.3.0.0/32"}

// vhSet builds the route set number k (bit i: prefix i present; variant: attribute variant).
func vhSet(mask, variant int) []*bgp.Advertisement {
	var out []*bgp.Advertisement
	for i, p := range vhPfx {
		if mask&(1<<uint(i)) == 0 {
			continue
		}
		_, n, _ := net.ParseCIDR(p)
		lp := uint32(100 + 100*variant)
		if variant == 2 {
			lp = 200 // as variant 1 without its community (an attribute-only change that removes a community)
		}
		a := &bgp.Advertisement{Prefix: n, LocalPref: lp}
		if variant == 1 {
			a.Communities = []community.BGPCommunity{community.VerifLegacy(1, 100)}
		}
		out = append(out, a)
	}
	return out
}

func vhTableMatches(c *vhPeerConn, want []*bgp.Advertisement, ibgp bool) bool {
	if len(c.table) != len(want) {
		return false
	}
	for _, a := range want {
		r, ok := c.table[a.Prefix.String()]
		if !ok {
			return false
		}
		if ibgp && r.lp != a.LocalPref {
			return false
		}
		if len(r.comms) != len(a.Communities) {
			return false
		}
		for i, cm := range a.Communities {
			if r.comms[i] != cm.(community.BGPCommunityLegacy).ToUint32() {
				return false
			}
		}
	}
	return true
}

// VerifSession (C17): the environment issues Set calls, drops connections (also in the middle of the
// session's writes) and finally lets the connection stay up; the peer's table must equal the last
// requested set. mode 0: normal peer; 1: peer presents an unexpected ASN; 2: session closed.
// fault 0: none; 1: the first dial fails; 2..4: the connection breaks during the session's n-th write
// on the first connection (n = fault+1: during the first UPDATEs).
func VerifSession(steps, mode, fault int) {
	if !vr.Symbolic() && fault != 0 {
		return // injected dial / write failures exist only with the in-memory connection of the engine
	}
	w := &vhWorldBGP{peerASN: 64512, peerFB: vr.Bool()}
	vhW = w
	if mode == 1 {
		w.peerASN = 64999
	}
	myASN := uint32(64512)
	if mode == 3 {
		// eBGP, and the peer decides on every connection whether it announces 4-byte ASN support
		w.ebgp, w.fbPerConn = true, true
		w.peerASN = 64600
	}
	peerAddr, peerPort := "10.0.0.1", uint16(179)
	if !vr.Symbolic() {
		if mode == 2 && vr.RaceRetry() {
			peerPort = uint16(w.listenSlow(400 * time.Millisecond))
		} else {
			peerPort = uint16(w.listen())
		}
		peerAddr = "127.0.0.1"
		defer w.ln.Close()
	}
	// at most one write failure, on a symbolic write of the first or second connection
	if fault == 1 {
		w.dialFails = 1
	}
	if fault >= 2 {
		w.failPlan = []int{fault + 1, 0}
	}
	sm := NewSessionManager(log.NewNopLogger())
	ht := 90 * time.Second
	expectASN := w.peerASN
	if mode == 1 {
		expectASN = 64512
	}
	sess, err := sm.NewSession(log.NewNopLogger(), bgp.SessionParameters{PeerAddress: peerAddr, PeerPort: peerPort, MyASN: myASN, PeerASN: expectASN,
		RouterID: net.IP{10, 0, 0, 9}, HoldTime: &ht, CurrentNode: "node-me"})
	vr.Assert(err == nil, "NewSession failed")
	var last []*bgp.Advertisement
	refused := false
	settle := func() {
		if !vr.Symbolic() {
			time.Sleep(120 * time.Millisecond)
			return
		}
		for k := 0; k < 4; k++ {
			vr.Yield()
			vr.WakeSleepers()
		}
		vr.Yield()
	}
	lock := func() {
		if !vr.Symbolic() {
			w.mu.Lock()
		}
	}
	unlock := func() {
		if !vr.Symbolic() {
			w.mu.Unlock()
		}
	}
	kinds := make([]int, steps)
	for i := range kinds {
		kinds[i] = vr.Choose(3)
	}
	dropped := false
	for i := 0; i < steps; i++ {
		switch kinds[i] {
		case 0: // a new route set is requested (possibly empty, possibly only attributes change)
			// menu: {}, {p0,p1} plain, {p0,p1} with other attributes (attribute-only change),
			// {p1,p2} with those attributes (p1 unchanged, p0 withdrawn, p2 new), {p0} plain,
			// {p0,p1} with those attributes minus the community
			k := vr.Choose(6)
			last = vhSet([]int{0, 3, 3, 6, 1, 3}[k], []int{0, 0, 1, 1, 0, 2}[k])
			if vr.RaceRetry() && i+1 < steps && kinds[i+1] == 1 {
				// native race retry: the Set and the drop of the next step arrive while the session lock is
				// held (as by a sender in the middle of a batch); the session notices the drop before its
				// sender processes the new set - one of the orders the engine explores
				s := sess.(*session)
				s.mu.Lock()
				done := make(chan error, 1)
				go func() { done <- sess.Set(last...) }()
				time.Sleep(30 * time.Millisecond)
				lock()
				if n := len(w.conns); n > 0 {
					w.conns[n-1].drop()
				}
				unlock()
				dropped = true
				time.Sleep(30 * time.Millisecond)
				s.mu.Unlock()
				vr.Assert(<-done == nil, "Set failed")
				break
			}
			vr.Assert(sess.Set(last...) == nil, "Set failed")
		case 1: // the peer drops the current connection
			lock()
			if n := len(w.conns); n > 0 && !dropped {
				w.conns[n-1].drop()
			}
			dropped = false
			if vr.Bool() {
				// ... and refuses the next two connection attempts: the session notices the loss and
				// waits in its back-off; what the environment does next happens while the session is down
				w.dialFails = 2
				refused = true
				unlock()
				if vr.Symbolic() {
					vr.Yield()
				} else {
					time.Sleep(60 * time.Millisecond)
				}
			} else {
				unlock()
			}
		case 2: // time passes (back-off sleeps end), everybody runs until blocked
			settle()
		}
	}
	if mode == 2 {
		vr.Assert(sess.Close() == nil, "Close failed")
		// Close and connect are serialised by the session mutex: once Close has returned no new
		// connection attempt may start and nothing more may be written
		lock()
		dials, msgs := w.dials, 0
		for _, c := range w.conns {
			msgs += c.msgs
		}
		unlock()
		settle()
		vr.WakeSleepers()
		settle()
		if !vr.Symbolic() && vr.RaceRetry() {
			time.Sleep(2500 * time.Millisecond) // a connection attempt in flight when Close returned completes
		}
		lock()
		msgs2 := 0
		for _, c := range w.conns {
			msgs2 += c.msgs
		}
		vr.Assert(w.dials == dials && msgs2 == msgs, "connection attempts or messages after the session was closed")
		unlock()
		vr.Reach("closed session is silent")
		return
	}
	// from now on the connection stays up
	w.failPlan = nil
	lock()
	w.dialFails = 0
	unlock()
	if refused && !vr.Symbolic() {
		time.Sleep(2500 * time.Millisecond) // native back-off after refused connection attempts (0 s, 1 s)
	}
	settle()
	settle()
	lock()
	defer unlock()
	if mode == 1 {
		for _, c := range w.conns {
			vr.Assert(len(c.table) == 0 && c.msgs <= 1, "routes or messages beyond OPEN were sent to a peer presenting an unexpected ASN")
		}
		vr.Reach("unexpected ASN refused")
		return
	}
	vr.Assert(len(w.conns) > 0, "no connection was ever established")
	cur := w.conns[len(w.conns)-1]
	if cur.closed {
		// the last connection was dropped by the last step: one more reconnect
		unlock()
		settle()
		if !vr.Symbolic() {
			time.Sleep(1200 * time.Millisecond) // native back-off after a lost connection
		}
		lock()
		cur = w.conns[len(w.conns)-1]
	}
	vr.Assert(!cur.closed, "the session did not reconnect")
	for _, c := range w.conns {
		vr.Assert(c.bad == "", "the peer received a malformed message")
	}
	vr.Assert(vhTableMatches(cur, last, !w.ebgp), "the peer's table differs from the most recently requested route set")
	vr.Reach("peer table converged")
}
