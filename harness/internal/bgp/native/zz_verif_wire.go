//go:build verif

package native

import (
	"errors"
	"io"
	"net"
	"time"

	"go.universe.tf/metallb/internal/bgp"
	"go.universe.tf/metallb/internal/bgp/community"
	vr "go.universe.tf/metallb/internal/verifrt"
)

var verifHarnesses = map[string]func(a []int){
	"VerifSendUpdate":         func(a []int) { VerifSendUpdate(a[0], a[1]) },
	"VerifSendUpdateManyComm": func(a []int) { VerifSendUpdateManyComm(a[0]) },
	"VerifSendWithdraw":       func(a []int) { VerifSendWithdraw(a[0]) },
	"VerifSendAfterFailure":   func(a []int) { VerifSendAfterFailure(a[0]) },
	"VerifSendKeepalive":      func(a []int) { VerifSendKeepalive() },
	"VerifSendOpen":           func(a []int) { VerifSendOpen() },
	"VerifReadOpenArbitrary":  func(a []int) { VerifReadOpenArbitrary(a[0]) },
	"VerifReadOpenWellFormed": func(a []int) { VerifReadOpenWellFormed(a[0], a[1]) },
}

// vhRecorder is the peer side of a connection: it records everything written.
type vhRecorder struct {
	b      []byte
	writes int
}

func (r *vhRecorder) Write(p []byte) (int, error) {
	r.b = append(r.b, p...)
	r.writes++
	return len(p), nil
}

func vhU16(b []byte) uint16 { return uint16(b[0])<<8 | uint16(b[1]) }
func vhU32(b []byte) uint32 {
	return uint32(b[0])<<24 | uint32(b[1])<<16 | uint32(b[2])<<8 | uint32(b[3])
}

// vhHeader checks the RFC 4271 header: marker, length = bytes written, type.
func vhHeader(b []byte, typ byte) bool {
	if len(b) < 19 || len(b) > 4096 {
		return false
	}
	ok := true
	for i := 0; i < 16; i++ {
		ok = vr.And(ok, b[i] == 0xff)
	}
	ok = vr.And(ok, int(vhU16(b[16:18])) == len(b))
	ok = vr.And(ok, b[18] == typ)
	return ok
}

func vhSymIP4() net.IP { return net.IP{vr.Byte(), vr.Byte(), vr.Byte(), vr.Byte()} }

// vhPrefix returns an arbitrary IPv4 prefix of arbitrary length 0..32 (already masked, as the
// callers of sendUpdate produce it) together with its length.
func vhPrefix() (*net.IPNet, int) {
	ones := vr.Int(0, 32)
	ip := vhSymIP4()
	m := net.CIDRMask(ones, 32)
	base := ip.Mask(m)
	if vr.Bool() {
		// the same IPv4 prefix with its address held in the 16-byte form (what net.ParseIP returns)
		base = base.To16()
	}
	return &net.IPNet{IP: base, Mask: m}, ones
}

// vhNLRI decodes one NLRI entry at b[pos:], checks it against the intended prefix, and returns the next position.
func vhNLRI(b []byte, pos int, pfx *net.IPNet, ones int) (int, bool) {
	if pos >= len(b) {
		return pos, false
	}
	ok := int(b[pos]) == ones
	ok = vr.And(ok, b[pos] <= 32)
	// number of address bytes that follow: ceil(len/8), derived from the length octet itself
	n := (int(b[pos]) + 7) / 8
	if pos+1+n > len(b) {
		return pos, false
	}
	ip4 := pfx.IP.To4()
	for i := 0; i < n; i++ {
		ok = vr.And(ok, b[pos+1+i] == ip4[i])
	}
	return pos + 1 + n, ok
}

// VerifSendUpdate: UPDATE round-trip. mode bit0 = iBGP, bit1 = peer supports 4-byte ASNs.
func VerifSendUpdate(mode, ncomm int) {
	ibgp := mode&1 != 0
	fbasn := mode&2 != 0
	pfx, ones := vhPrefix()
	adv := &bgp.Advertisement{Prefix: pfx, LocalPref: vr.Uint32()}
	comms := make([]uint32, ncomm)
	for i := 0; i < ncomm; i++ {
		u, l := vr.Uint16(), vr.Uint16()
		adv.Communities = append(adv.Communities, community.VerifLegacy(u, l))
		comms[i] = uint32(u)<<16 | uint32(l)
	}
	asn := vr.Uint32()
	nh := vhSymIP4()
	w := &vhRecorder{}
	err := sendUpdate(w, asn, ibgp, fbasn, nh, adv)
	if err != nil {
		vr.Assert(!ibgp && !fbasn && asn > 65535, "sendUpdate failed although the ASN is representable")
		vr.Assert(len(w.b) == 0, "failed sendUpdate wrote bytes")
		vr.Reach("update refused")
		return
	}
	vr.Assert(ibgp || fbasn || asn <= 65535, "2-byte AS path emitted for an ASN above 65535")
	b := w.b
	vr.Assert(vhHeader(b, 2), "UPDATE header malformed (marker / length / type)")
	vr.Assert(len(b) >= 23, "UPDATE shorter than its fixed part")
	vr.Assert(vhU16(b[19:21]) == 0, "UPDATE announces withdrawn routes")
	attrLen := int(vhU16(b[21:23]))
	end := 23 + attrLen
	vr.Assert(end <= len(b), "attribute length exceeds message")
	pos := 23
	seen := map[byte]int{}
	ok := true
	for pos < end {
		vr.Assert(pos+3 <= end, "truncated attribute header")
		flags, typ, alen := b[pos], b[pos+1], int(b[pos+2])
		vr.Assert(flags&0x10 == 0, "extended-length attribute not expected")
		val := b[pos+3:]
		vr.Assert(pos+3+alen <= end, "attribute overruns attribute block")
		val = val[:alen]
		seen[typ]++
		switch typ {
		case 1: // ORIGIN
			ok = vr.And(ok, flags == 0x40 && alen == 1)
			if alen == 1 {
				ok = vr.And(ok, val[0] == 0)
			}
		case 2: // AS_PATH
			ok = vr.And(ok, flags == 0x40)
			switch {
			case ibgp:
				ok = vr.And(ok, alen == 0)
			case fbasn:
				ok = vr.And(ok, alen == 6)
				if alen == 6 {
					ok = vr.And(ok, vr.And(val[0] == 2, val[1] == 1))
					ok = vr.And(ok, vhU32(val[2:6]) == asn)
				}
			default:
				ok = vr.And(ok, alen == 4)
				if alen == 4 {
					ok = vr.And(ok, vr.And(val[0] == 2, val[1] == 1))
					ok = vr.And(ok, uint32(vhU16(val[2:4])) == asn)
				}
			}
		case 3: // NEXT_HOP
			ok = vr.And(ok, flags == 0x40 && alen == 4)
			if alen == 4 {
				for i := 0; i < 4; i++ {
					ok = vr.And(ok, val[i] == nh[i])
				}
			}
		case 5: // LOCAL_PREF
			ok = vr.And(ok, flags == 0x40 && alen == 4 && ibgp)
			if alen == 4 {
				ok = vr.And(ok, vhU32(val) == adv.LocalPref)
			}
		case 8: // COMMUNITIES
			ok = vr.And(ok, flags == 0xc0 && alen == 4*ncomm && ncomm > 0)
			if alen == 4*ncomm {
				for i := 0; i < ncomm; i++ {
					ok = vr.And(ok, vhU32(val[4*i:4*i+4]) == comms[i])
				}
			}
		default:
			ok = false
		}
		pos += 3 + alen
	}
	vr.Assert(pos == end, "attributes do not fill the attribute block exactly")
	vr.Assert(ok, "a path attribute does not decode to the intended value")
	vr.Assert(seen[1] == 1 && seen[2] == 1 && seen[3] == 1, "mandatory attribute missing or repeated")
	lp := 0
	if ibgp {
		lp = 1
	}
	vr.Assert(seen[5] == lp, "LOCAL_PREF must be present iff iBGP")
	cm := 0
	if ncomm > 0 {
		cm = 1
	}
	vr.Assert(seen[8] == cm, "COMMUNITIES must be present iff communities were requested")
	next, nok := vhNLRI(b, end, pfx, ones)
	vr.Assert(nok, "NLRI does not decode to the intended prefix")
	vr.Assert(next == len(b), "bytes left after the single NLRI entry")
	vr.Assert(w.writes == 1, "message not written in one piece")
	vr.Reach("update decoded")
}

// VerifSendUpdateManyComm: length arithmetic with many communities (concrete values).
func VerifSendUpdateManyComm(ncomm int) {
	pfx, ones := vhPrefix()
	adv := &bgp.Advertisement{Prefix: pfx, LocalPref: 7}
	for i := 0; i < ncomm; i++ {
		adv.Communities = append(adv.Communities, community.VerifLegacy(uint16(i+1), uint16(2*i+1)))
	}
	w := &vhRecorder{}
	err := sendUpdate(w, vr.Uint32(), true, true, vhSymIP4(), adv)
	if ncomm > 63 {
		vr.Assert(err != nil && len(w.b) == 0, "more communities than fit the 1-byte attribute length must be refused")
		vr.Reach("too many communities refused")
		return
	}
	vr.Assert(err == nil, "sendUpdate failed with a representable number of communities")
	b := w.b
	vr.Assert(vhHeader(b, 2), "UPDATE header malformed")
	attrLen := int(vhU16(b[21:23]))
	// ORIGIN(4) + AS_PATH(3) + NEXT_HOP(7) + LOCAL_PREF(7) + COMMUNITIES(3+4n)
	vr.Assert(attrLen == 4+3+7+7+3+4*ncomm, "attribute block length")
	cpos := 23 + 4 + 3 + 7 + 7
	vr.Assert(b[cpos] == 0xc0 && b[cpos+1] == 8 && int(b[cpos+2]) == 4*ncomm, "COMMUNITIES header")
	for i := 0; i < ncomm; i++ {
		vr.Assert(vhU32(b[cpos+3+4*i:]) == uint32(i+1)<<16|uint32(2*i+1), "community value")
	}
	next, nok := vhNLRI(b, 23+attrLen, pfx, ones)
	vr.Assert(nok && next == len(b), "NLRI after many communities")
	vr.Reach("many communities decoded")
}

// vhCheckWithdraw reads a recorded withdraw message back with the independent decoder.
func vhCheckWithdraw(w *vhRecorder, pfxs []*net.IPNet, lens []int) {
	b := w.b
	vr.Assert(vhHeader(b, 2), "withdraw header malformed")
	vr.Assert(len(b) >= 23, "withdraw shorter than fixed part")
	wl := int(vhU16(b[19:21]))
	vr.Assert(21+wl+2 == len(b), "withdrawn-routes length inconsistent with message length")
	pos := 21
	for i := range pfxs {
		next, ok := vhNLRI(b[:21+wl], pos, pfxs[i], lens[i])
		vr.Assert(ok, "withdrawn route does not decode to the intended prefix")
		pos = next
	}
	vr.Assert(pos == 21+wl, "withdrawn routes do not fill their block")
	vr.Assert(vhU16(b[pos:pos+2]) == 0, "withdraw carries path attributes")
	vr.Assert(w.writes == 1, "message not written in one piece")
}

// vhBrokenPipe accepts the first k bytes of a write and then fails (connection reset in the middle of a
// message).
type vhBrokenPipe struct{ k int }

func (p *vhBrokenPipe) Write(b []byte) (int, error) {
	if len(b) <= p.k {
		p.k -= len(b)
		return len(b), nil
	}
	k := p.k
	p.k = 0
	return k, errors.New("connection reset by peer")
}

// VerifSendAfterFailure (C16, histories): a message (withdraw, update or keepalive) fails in the middle of
// its write - the connection accepted k bytes - and the next withdraw / update / keepalive goes to a
// healthy connection: it is well formed and carries exactly its own content, nothing of the failed message.
func VerifSendAfterFailure(k int) {
	pa := &net.IPNet{IP: net.IP{10, 20, 30, 0}, Mask: net.CIDRMask(24, 32)} // what the failed message carries does not matter
	bad := &vhBrokenPipe{k: k}
	var err error
	switch vr.Choose(3) {
	case 0:
		err = sendWithdraw(bad, []*net.IPNet{pa})
	case 1:
		err = sendUpdate(bad, vr.Uint32(), true, true, vhSymIP4(), &bgp.Advertisement{Prefix: pa, LocalPref: 7})
	case 2:
		err = sendKeepalive(bad)
	}
	vr.Assert(vr.Implies(k < 19, err != nil), "a write the connection refused was reported as sent")
	pb, ob := vhPrefix()
	switch vr.Choose(3) {
	case 0:
		w := &vhRecorder{}
		vr.Assert(sendWithdraw(w, []*net.IPNet{pb}) == nil, "sendWithdraw failed on a healthy connection")
		vhCheckWithdraw(w, []*net.IPNet{pb}, []int{ob})
	case 1:
		w := &vhRecorder{}
		vr.Assert(sendUpdate(w, vr.Uint32(), true, true, vhSymIP4(), &bgp.Advertisement{Prefix: pb, LocalPref: 7}) == nil, "sendUpdate failed on a healthy connection")
		vr.Assert(vhHeader(w.b, 2), "UPDATE header malformed after an earlier failed write")
		attrLen := int(vhU16(w.b[21:23]))
		next, nok := vhNLRI(w.b, 23+attrLen, pb, ob)
		vr.Assert(nok && next == len(w.b), "UPDATE after an earlier failed write does not carry its prefix")
	case 2:
		w := &vhRecorder{}
		vr.Assert(sendKeepalive(w) == nil, "sendKeepalive failed on a healthy connection")
		vr.Assert(vhHeader(w.b, 4) && len(w.b) == 19, "KEEPALIVE malformed after an earlier failed write")
	}
	vr.Reach("message after a failed write decoded")
}

// VerifSendWithdraw: withdraw message with n prefixes.
func VerifSendWithdraw(n int) {
	var pfxs []*net.IPNet
	var lens []int
	for i := 0; i < n; i++ {
		p, o := vhPrefix()
		pfxs = append(pfxs, p)
		lens = append(lens, o)
	}
	w := &vhRecorder{}
	err := sendWithdraw(w, pfxs)
	vr.Assert(err == nil, "sendWithdraw failed")
	vhCheckWithdraw(w, pfxs, lens)
	vr.Reach("withdraw decoded")
}

func VerifSendKeepalive() {
	w := &vhRecorder{}
	vr.Assert(sendKeepalive(w) == nil, "sendKeepalive failed")
	vr.Assert(vhHeader(w.b, 4) && len(w.b) == 19, "KEEPALIVE malformed")
	vr.Reach("keepalive decoded")
}

// VerifSendOpen: OPEN carries ASN (AS_TRANS + capability above 65535), hold time and router id.
func VerifSendOpen() {
	asn := vr.Uint32()
	rid := vhSymIP4()
	secs := vr.Uint16()
	hold := time.Duration(secs) * time.Second
	w := &vhRecorder{}
	vr.Assert(sendOpen(w, asn, rid, hold) == nil, "sendOpen failed")
	b := w.b
	vr.Assert(vhHeader(b, 1), "OPEN header malformed")
	vr.Assert(len(b) >= 29, "OPEN shorter than fixed part")
	vr.Assert(b[19] == 4, "BGP version")
	as16 := vhU16(b[20:22])
	vr.Assert(vr.Implies(asn <= 65535, uint32(as16) == asn), "2-byte ASN field")
	vr.Assert(vr.Implies(asn > 65535, as16 == 23456), "AS_TRANS expected above 65535")
	vr.Assert(vhU16(b[22:24]) == secs, "hold time")
	for i := 0; i < 4; i++ {
		vr.Assert(b[24+i] == rid[i], "router id")
	}
	optLen := int(b[28])
	vr.Assert(29+optLen == len(b), "optional parameter length inconsistent")
	// walk options and capabilities with an independent reader
	pos := 29
	var got32 uint32
	n65, mp4, mp6 := 0, 0, 0
	for pos < len(b) {
		vr.Assert(pos+2 <= len(b), "truncated option header")
		ot, ol := b[pos], int(b[pos+1])
		vr.Assert(ot == 2, "only capability options expected")
		oend := pos + 2 + ol
		vr.Assert(oend <= len(b), "option overruns message")
		cp := pos + 2
		for cp < oend {
			vr.Assert(cp+2 <= oend, "truncated capability header")
			code, cl := b[cp], int(b[cp+1])
			vr.Assert(cp+2+cl <= oend, "capability overruns option")
			v := b[cp+2 : cp+2+cl]
			switch code {
			case 65:
				vr.Assert(cl == 4, "4-byte ASN capability length")
				got32 = vhU32(v)
				n65++
			case 1:
				vr.Assert(cl == 4, "multiprotocol capability length")
				if vhU16(v[0:2]) == 1 && v[3] == 1 {
					mp4++
				}
				if vhU16(v[0:2]) == 2 && v[3] == 1 {
					mp6++
				}
			}
			cp += 2 + cl
		}
		pos = oend
	}
	vr.Assert(n65 == 1 && got32 == asn, "4-byte ASN capability must carry the full ASN")
	vr.Assert(mp4 == 1 && mp6 == 1, "IPv4 and IPv6 unicast multiprotocol capabilities")
	vr.Reach("open decoded")
}

// vhReader is a peer byte stream that counts how much was consumed.
type vhReader struct {
	b     []byte
	pos   int
	reads int
}

func (r *vhReader) Read(p []byte) (int, error) {
	r.reads++
	if r.pos >= len(r.b) {
		return 0, io.EOF
	}
	n := copy(p, r.b[r.pos:])
	r.pos += n
	return n, nil
}

// VerifReadOpenArbitrary: any byte string of length L fed to readOpen — no panic, terminates, and
// nothing beyond the announced message length is consumed.
func VerifReadOpenArbitrary(L int) {
	b := make([]byte, L)
	for i := range b {
		b[i] = vr.Byte()
	}
	r := &vhReader{b: b}
	res, err := readOpen(r)
	vr.Assert((res == nil) != (err == nil), "exactly one of result and error")
	if L >= 19 {
		announced := int(vhU16(b[16:18]))
		limit := vr.IteInt(announced < 19, 19, announced)
		if r.pos > 19 && b[18] == 3 && announced <= 20 {
			vr.Finding("F9-notification-overread")
		}
		vr.Assert(r.pos <= limit, "readOpen consumed bytes beyond the announced message length")
	}
	if err == nil {
		vr.Reach("arbitrary bytes accepted as OPEN")
	} else {
		vr.Reach("arbitrary bytes rejected")
	}
}

// VerifReadOpenWellFormed: a structurally well-formed OPEN with nopts capability options of ncaps
// capabilities each (kinds chosen symbolically) decodes to the intended parameters.
func VerifReadOpenWellFormed(nopts, ncaps int) {
	as16 := vr.Uint16()
	hold := vr.Uint16()
	vr.Assume(hold == 0 || hold >= 3)
	var body []byte
	body = append(body, 4, byte(as16>>8), byte(as16), byte(hold>>8), byte(hold), vr.Byte(), vr.Byte(), vr.Byte(), vr.Byte())
	wantASN := uint32(as16)
	wantFB, want4, want6 := false, false, false
	have65 := false
	var opts []byte
	for o := 0; o < nopts; o++ {
		var caps []byte
		for c := 0; c < ncaps; c++ {
			switch vr.Choose(4) {
			case 0: // 4-byte ASN, at most once
				if have65 {
					vr.Assume(false)
				}
				have65 = true
				a := vr.Uint32()
				caps = append(caps, 65, 4, byte(a>>24), byte(a>>16), byte(a>>8), byte(a))
				wantASN, wantFB = a, true
			case 1: // multiprotocol, arbitrary AFI/SAFI
				afi, safi := vr.Uint16(), vr.Uint16()
				caps = append(caps, 1, 4, byte(afi>>8), byte(afi), byte(safi>>8), byte(safi))
				want4 = vr.Or(want4, afi == 1 && safi == 1)
				want6 = vr.Or(want6, afi == 2 && safi == 1)
			case 2: // unknown capability without payload
				code := vr.Byte()
				vr.Assume(code != 65 && code != 1)
				caps = append(caps, code, 0)
			case 3: // unknown capability with 2 payload bytes
				code := vr.Byte()
				vr.Assume(code != 65 && code != 1)
				caps = append(caps, code, 2, vr.Byte(), vr.Byte())
			}
		}
		opts = append(opts, 2, byte(len(caps)))
		opts = append(opts, caps...)
	}
	body = append(body, byte(len(opts)))
	body = append(body, opts...)
	total := 19 + len(body)
	msg := make([]byte, 0, total+4)
	for i := 0; i < 16; i++ {
		msg = append(msg, 0xff)
	}
	msg = append(msg, byte(total>>8), byte(total), 1)
	msg = append(msg, body...)
	// trailing bytes of the next message must not be touched
	msg = append(msg, vr.Byte(), vr.Byte(), vr.Byte(), vr.Byte())
	r := &vhReader{b: msg}
	res, err := readOpen(r)
	vr.Assert(err == nil && res != nil, "well-formed OPEN rejected")
	vr.Assert(r.pos == total, "well-formed OPEN not consumed exactly")
	vr.Assert(res.asn == wantASN, "peer ASN (4-byte capability takes precedence)")
	vr.Assert(res.holdTime == time.Duration(hold)*time.Second, "hold time")
	vr.Assert(res.fbasn == wantFB, "4-byte ASN capability flag")
	vr.Assert(res.mp4 == want4, "IPv4 unicast capability flag")
	vr.Assert(res.mp6 == want6, "IPv6 unicast capability flag")
	vr.Reach("well-formed open decoded")
}
