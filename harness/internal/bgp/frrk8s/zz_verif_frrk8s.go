//go:build verif

package frr

import (
	"net"
	"reflect"

	"github.com/go-kit/log"
	frrv1beta1 "github.com/metallb/frr-k8s/api/v1beta1"
	"go.universe.tf/metallb/internal/bgp"
	"go.universe.tf/metallb/internal/bgp/community"
	"go.universe.tf/metallb/internal/logging"
	vr "go.universe.tf/metallb/internal/verifrt"
	corev1 "k8s.io/api/core/v1"
)

var verifHarnesses = map[string]func(a []int){
	"VerifFRRK8sConfig": func(a []int) { VerifFRRK8sConfig(a[0], a[1], a[2], a[3]) },
	"VerifFRRK8sPassword": func(a []int) { VerifFRRK8sPassword() },
}

// vhReq is what the harness asked for on one session.
type vhReq struct {
	prefix string // textual prefix
	lp     uint32
	c1, c2 bool // standard communities 1:100, 1:200
	large  bool // large community 64512:1:2
}

var vhC1, _ = community.New("1:100")
var vhC2, _ = community.New("1:200")
var vhLarge, _ = community.New("large:64512:1:2")

// vhSymAdv: prefix 10.0.{0,1}.0/24 (symbolic bit), or a v6 prefix; symbolic local preference over
// {0,100,200}; community set chosen structurally.
// kind 0: IPv4 prefix, local preference over {0,100}, 3 community shapes; kind 1: IPv4 or IPv6 prefix,
// local preference over {0,100,200}, 4 community shapes.
func vhSymAdv(kind, idx int) (*bgp.Advertisement, vhReq) {
	var n *net.IPNet
	if kind == 0 || vr.Bool() {
		n = &net.IPNet{IP: net.IP{10, 0, vr.Byte() & 1, 0}, Mask: net.CIDRMask(24, 32)}
	} else {
		ip := net.ParseIP("fd00::")
		ip[7] = vr.Byte() & 1
		n = &net.IPNet{IP: ip, Mask: net.CIDRMask(64, 128)}
	}
	lp := vr.IteU32(vr.Bool(), 0, 100)
	ncomm := 3
	if kind == 0 && idx > 0 {
		ncomm = 2
	}
	if kind == 1 {
		lp = vr.IteU32(vr.Bool(), lp, 200)
		ncomm = 4
	}
	adv := &bgp.Advertisement{Prefix: n, LocalPref: lp}
	r := vhReq{prefix: n.String(), lp: lp}
	switch vr.Choose(ncomm) {
	case 1:
		adv.Communities = []community.BGPCommunity{vhC1}
		r.c1 = true
	case 2:
		adv.Communities = []community.BGPCommunity{vhC2, vhC1}
		r.c1, r.c2 = true, true
	case 3:
		adv.Communities = []community.BGPCommunity{vhLarge, vhC2}
		r.large, r.c2 = true, true
	}
	return adv, r
}

// vhSameSet: list equals the set of the selected requests (as sets), is duplicate free and sorted.
func vhSameSet(list []string, reqs []vhReq, sel func(vhReq) bool) bool {
	ok := true
	for _, r := range reqs {
		in := false
		for _, l := range list {
			in = vr.Or(in, l == r.prefix)
		}
		ok = vr.And(ok, vr.Implies(sel(r), in))
	}
	for _, l := range list {
		in := false
		for _, r := range reqs {
			in = vr.Or(in, vr.And(sel(r), l == r.prefix))
		}
		ok = vr.And(ok, in)
	}
	for i := 0; i+1 < len(list); i++ {
		ok = vr.And(ok, list[i] < list[i+1]) // sorted and duplicate free
	}
	return ok
}

func vhAll(bs ...bool) bool {
	r := true
	for _, b := range bs {
		r = vr.And(r, b)
	}
	return r
}

func vhAny(reqs []vhReq, sel func(vhReq) bool) bool {
	any := false
	for _, r := range reqs {
		any = vr.Or(any, sel(r))
	}
	return any
}

type vhSess struct {
	params bgp.SessionParameters
	reqs   []vhReq
	advs   []*bgp.Advertisement
}

func vhSessions(nsess, nadv0, kind int) []*vhSess {
	var out []*vhSess
	for i := 0; i < nsess; i++ {
		p := bgp.SessionParameters{
			PeerAddress: []string{"192.168.1.1", "192.168.1.2", "192.168.1.3"}[i],
			PeerPort:    179, MyASN: 64512, PeerASN: uint32(64600 + i), RouterID: net.ParseIP("10.255.0.1"),
			SourceAddress: net.ParseIP("192.168.1.100"), CurrentNode: "node-me", SessionName: []string{"peer0", "peer1", "peer2"}[i],
		}
		if i == 2 {
			p.VRFName = "red"
		}
		s := &vhSess{params: p}
		n := 1
		if i == 0 {
			n = nadv0
		}
		for k := 0; k < n; k++ {
			a, r := vhSymAdv(kind, len(out)+k)
			s.advs = append(s.advs, a)
			s.reqs = append(s.reqs, r)
		}
		out = append(out, s)
	}
	return out
}

// vhBuild creates the sessions in the given order on a fresh manager and returns the last configuration
// handed to the controller.
func vhBuild(sess []*vhSess, reverse bool, lastOrder int) (frrv1beta1.FRRConfiguration, bool) {
	var last frrv1beta1.FRRConfiguration
	got := false
	sm := NewSessionManager(log.NewNopLogger(), logging.LevelInfo, "node-me", "metallb-system")
	sm.SetEventCallback(func(c interface{}) {
		last = c.(frrv1beta1.FRRConfiguration)
		got = true
	})
	order := make([]*vhSess, len(sess))
	copy(order, sess)
	if reverse {
		for i, j := 0, len(order)-1; i < j; i, j = i+1, j-1 {
			order[i], order[j] = order[j], order[i]
		}
	}
	for i, s := range order {
		bs, err := sm.NewSession(log.NewNopLogger(), s.params)
		vr.Assert(err == nil, "NewSession failed")
		if i == len(order)-1 {
			// every call recomputes the whole object: only the last computation's map orders matter
			vr.MapOrder(lastOrder)
		}
		vr.Assert(bs.Set(s.advs...) == nil, "Set failed")
		vr.MapOrder(vr.OrderInsertion)
	}
	return last, got
}

// VerifFRRK8sConfig (C15): the FRRConfiguration lists, per neighbor, exactly what was requested.
func VerifFRRK8sConfig(nsess, nadv0, order, kind int) {
	sess := vhSessions(nsess, nadv0, kind)
	cfg, got := vhBuild(sess, false, vr.OrderInsertion)
	vr.Assert(got, "no configuration handed to the controller")
	// targets only this node
	ml := cfg.Spec.NodeSelector.MatchLabels
	vr.Assert(vhAll(len(ml) == 1, ml["kubernetes.io/hostname"] == "node-me", len(cfg.Spec.NodeSelector.MatchExpressions) == 0), "the configuration does not target exactly this node")
	// every session appears as exactly one neighbor of the right router
	seen := 0
	var union []vhReq
	for _, s := range sess {
		union = append(union, s.reqs...)
	}
	for _, r := range cfg.Spec.BGP.Routers {
		var rreqs []vhReq
		for _, nb := range r.Neighbors {
			var s *vhSess
			for _, c := range sess {
				if c.params.PeerAddress == nb.Address && c.params.VRFName == r.VRF {
					s = c
				}
			}
			vr.Assert(s != nil, "a neighbor that was never requested")
			if s == nil {
				continue
			}
			seen++
			rreqs = append(rreqs, s.reqs...)
			vr.Assert(vhAll(nb.ASN == s.params.PeerASN, r.ASN == s.params.MyASN, nb.Port != nil, *nb.Port == s.params.PeerPort), "session parameters on the wrong neighbor")
			all := func(vhReq) bool { return true }
			vr.Assert(vhSameSet(nb.ToAdvertise.Allowed.Prefixes, s.reqs, all), "allowed prefixes are not exactly the requested ones (sorted, duplicate free)")
			// communities
			for _, cp := range nb.ToAdvertise.PrefixesWithCommunity {
				var sel func(vhReq) bool
				switch cp.Community {
				case "1:100":
					sel = func(r vhReq) bool { return r.c1 }
				case "1:200":
					sel = func(r vhReq) bool { return r.c2 }
				case "large:64512:1:2":
					sel = func(r vhReq) bool { return r.large }
				default:
					vr.Assert(false, "a community nobody requested")
					continue
				}
				vr.Assert(vhAll(len(cp.Prefixes) > 0, vhSameSet(cp.Prefixes, s.reqs, sel)), "a community is not associated with exactly the prefixes that requested it")
			}
			for _, want := range []struct {
				name string
				sel  func(vhReq) bool
			}{{"1:100", func(r vhReq) bool { return r.c1 }}, {"1:200", func(r vhReq) bool { return r.c2 }}, {"large:64512:1:2", func(r vhReq) bool { return r.large }}} {
				listed := false
				for _, cp := range nb.ToAdvertise.PrefixesWithCommunity {
					if cp.Community == want.name {
						listed = true
					}
				}
				vr.Assert(listed == vhAny(s.reqs, want.sel), "a requested community is missing (or an unrequested one is listed)")
			}
			// local preferences
			for _, lp := range nb.ToAdvertise.PrefixesWithLocalPref {
				v := lp.LocalPref
				vr.Assert(v != 0, "an entry for local preference 0")
				vr.Assert(vhAll(len(lp.Prefixes) > 0, vhSameSet(lp.Prefixes, s.reqs, func(r vhReq) bool { return r.lp == v })), "a local preference is not associated with exactly the prefixes that requested it")
			}
			for _, v := range []uint32{100, 200} {
				listed := false
				for _, lp := range nb.ToAdvertise.PrefixesWithLocalPref {
					listed = vr.Or(listed, lp.LocalPref == v)
				}
				vr.Assert(listed == vhAny(s.reqs, func(r vhReq) bool { return r.lp == v }), "a requested local preference is missing (or an unrequested one is listed)")
			}
		}
		vr.Assert(vhSameSet(r.Prefixes, rreqs, func(vhReq) bool { return true }), "router prefixes are not the union of its neighbors' requested prefixes")
	}
	vr.Assert(seen == len(sess), "a session is missing from the configuration")
	// determinism: other creation order and other map iteration order give the same object
	cfg2, _ := vhBuild(sess, true, order)
	vr.Assert(reflect.DeepEqual(cfg, cfg2), "the configuration depends on session creation order or map iteration order")
	vr.Reach("frr-k8s configuration checked")
}

// VerifFRRK8sPassword (C15): either the password or the secret reference, never both.
func VerifFRRK8sPassword() {
	p := bgp.SessionParameters{PeerAddress: "192.168.1.1", PeerPort: 179, MyASN: 64512, PeerASN: 64600, RouterID: net.ParseIP("10.255.0.1"), CurrentNode: "node-me"}
	hasPw, hasRef := vr.Bool(), vr.Bool()
	if hasPw {
		p.Password = "secret"
	}
	if hasRef {
		p.PasswordRef = corev1.SecretReference{Name: "pw", Namespace: "metallb-system"}
	}
	var last frrv1beta1.FRRConfiguration
	sm := NewSessionManager(log.NewNopLogger(), logging.LevelInfo, "node-me", "metallb-system")
	sm.SetEventCallback(func(c interface{}) { last = c.(frrv1beta1.FRRConfiguration) })
	_, err := sm.NewSession(log.NewNopLogger(), p)
	if hasPw && hasRef {
		vr.Assert(err != nil, "a session with both password and secret reference was accepted")
		vr.Reach("both rejected")
		return
	}
	vr.Assert(err == nil, "NewSession failed")
	nb := last.Spec.BGP.Routers[0].Neighbors[0]
	vr.Assert(vhAll((nb.Password != "") == hasPw, (nb.PasswordSecret.Name != "") == hasRef), "password / secret reference not carried as given")
	vr.Assert(!vhAll(nb.Password != "", nb.PasswordSecret.Name != ""), "both password and secret reference set")
	vr.Reach("password checked")
}

func init() {
	verifHarnesses["VerifFRRK8sSetRefused"] = func(a []int) { VerifFRRK8sSetRefused() }
}

// VerifFRRK8sSetRefused (C15, histories): a Set refused by validation (an advertisement with more than 63
// communities) leaves what the session advertises untouched: the configuration produced by a later,
// unrelated change (another session's Set) still lists for the first neighbor what its last accepted Set
// requested.
func VerifFRRK8sSetRefused() {
	sess := vhSessions(2, 2, 0)
	var last frrv1beta1.FRRConfiguration
	sm := NewSessionManager(log.NewNopLogger(), logging.LevelInfo, "node-me", "metallb-system")
	sm.SetEventCallback(func(c interface{}) { last = c.(frrv1beta1.FRRConfiguration) })
	var bss []bgp.Session
	for _, s := range sess {
		bs, err := sm.NewSession(log.NewNopLogger(), s.params)
		vr.Assert(err == nil, "NewSession failed")
		vr.Assert(bs.Set(s.advs...) == nil, "Set failed")
		bss = append(bss, bs)
	}
	before := last.DeepCopy()
	bad := &bgp.Advertisement{Prefix: sess[0].advs[0].Prefix, LocalPref: sess[0].advs[0].LocalPref}
	for i := 0; i < 64; i++ {
		bad.Communities = append(bad.Communities, vhC1)
	}
	list := []*bgp.Advertisement{sess[0].advs[1], bad}
	if vr.Bool() {
		list = []*bgp.Advertisement{bad, sess[0].advs[1]}
	}
	vr.Assert(bss[0].Set(list...) != nil, "an advertisement with 64 communities was accepted")
	// an unrelated regeneration: the other session repeats its Set
	vr.Assert(bss[1].Set(sess[1].advs...) == nil, "Set failed")
	vr.Assert(reflect.DeepEqual(before.Spec, last.Spec), "a refused Set changed what the session advertises")
	vr.Reach("refused Set left the session untouched")
}
