//go:build verif

package community

// VerifLegacy builds a legacy community from its two halves (overlay-only constructor for harnesses).
func VerifLegacy(upper, lower uint16) BGPCommunityLegacy {
	return BGPCommunityLegacy{upperVal: upper, lowerVal: lower}
}

// VerifLarge builds a large community (overlay-only constructor for harnesses).
func VerifLarge(ga, l1, l2 uint32) BGPCommunityLarge {
	return BGPCommunityLarge{globalAdministrator: ga, localDataPart1: l1, localDataPart2: l2}
}
