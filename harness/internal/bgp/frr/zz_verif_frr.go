//go:build verif

package frr

import (
	"net"
	"reflect"

	"go.universe.tf/metallb/internal/bgp"
	"go.universe.tf/metallb/internal/bgp/community"
	"go.universe.tf/metallb/internal/ipfamily"
	vr "go.universe.tf/metallb/internal/verifrt"
)

var verifHarnesses = map[string]func(a []int){
	"VerifFRRConfigIR": func(a []int) { VerifFRRConfigIR(a[0], a[1], a[2], a[3]) },
}

type vhReq struct {
	prefix string
	v6     bool
	lp     uint32
	c1, c2 bool
	large  bool
}

var vhC1, _ = community.New("1:100")
var vhC2, _ = community.New("1:200")
var vhLarge, _ = community.New("large:64512:1:2")

// vhSymAdv: kind 0: IPv4 prefix 10.0.{0,1}.0/24; kind 1: IPv4 or IPv6 prefix. Local preference is a
// function of the prefix (a repeated prefix must repeat its local preference) chosen symbolically.
func vhSymAdv(kind, idx int, lpFor *[4]uint32) (*bgp.Advertisement, vhReq) {
	var n *net.IPNet
	r := vhReq{}
	var slot int
	bit := vr.Byte() & 1
	if kind == 0 || vr.Bool() {
		n = &net.IPNet{IP: net.IP{10, 0, bit, 0}, Mask: net.CIDRMask(24, 32)}
	} else {
		ip := net.ParseIP("fd00::")
		ip[7] = bit
		n = &net.IPNet{IP: ip, Mask: net.CIDRMask(64, 128)}
		r.v6 = true
		slot = 2
	}
	// local preference of this prefix (same for every repetition of the prefix on the neighbor)
	lp := vr.IteU32(bit == 1, lpFor[slot+1], lpFor[slot])
	adv := &bgp.Advertisement{Prefix: n, LocalPref: lp}
	r.prefix, r.lp = n.String(), lp
	ncomm := 3
	if idx > 0 && kind == 0 {
		ncomm = 2
	}
	if kind == 1 {
		ncomm = 4
	}
	switch vr.Choose(ncomm) {
	case 1:
		adv.Communities = []community.BGPCommunity{vhC1}
		r.c1 = true
	case 2:
		adv.Communities = []community.BGPCommunity{vhC2, vhC1}
		r.c1, r.c2 = true, true
	case 3:
		adv.Communities = []community.BGPCommunity{vhLarge, vhC2}
		r.large, r.c2 = true, true
	}
	return adv, r
}

type vhSess struct {
	params bgp.SessionParameters
	reqs   []vhReq
	advs   []*bgp.Advertisement
}

func vhSessions(nsess, nadv0, kind int) []*vhSess {
	var out []*vhSess
	for i := 0; i < nsess; i++ {
		p := bgp.SessionParameters{
			PeerAddress: []string{"192.168.1.1", "fc00::2", "192.168.1.3"}[i],
			PeerPort:    179, MyASN: 64512, PeerASN: uint32(64600 + i), RouterID: net.ParseIP("10.255.0.1"),
			SourceAddress: net.ParseIP("192.168.1.100"), CurrentNode: "node-me",
		}
		if i == 2 {
			p.VRFName = "red"
		}
		if i == 1 && kind == 2 {
			p.VRFName = "Red" // VRF names are case sensitive: a second VRF, same ASN and router id
		}
		s := &vhSess{params: p}
		n := 1
		if i == 0 {
			n = nadv0
		}
		var lpFor [4]uint32
		for k := range lpFor {
			lpFor[k] = vr.IteU32(vr.Bool(), 0, 100)
			if kind == 1 && k%2 == 1 {
				lpFor[k] = vr.IteU32(vr.Bool(), lpFor[k], 200)
			}
		}
		for k := 0; k < n; k++ {
			a, r := vhSymAdv(kind, k, &lpFor)
			s.advs = append(s.advs, a)
			s.reqs = append(s.reqs, r)
		}
		out = append(out, s)
	}
	return out
}

func vhManager(sess []*vhSess, reverse bool) *sessionManager {
	osHostname = func() (string, error) { return "verif-host", nil }
	sm := &sessionManager{sessions: map[string]*session{}, bfdProfiles: []BFDProfile{}, reloadConfig: make(chan reloadEvent, 64), logLevel: "informational"}
	order := make([]*vhSess, len(sess))
	copy(order, sess)
	if reverse {
		for i, j := 0, len(order)-1; i < j; i, j = i+1, j-1 {
			order[i], order[j] = order[j], order[i]
		}
	}
	for _, s := range order {
		ss := &session{SessionParameters: s.params, sessionManager: sm, advertised: s.advs}
		sm.sessions[sessionName(*ss)] = ss
	}
	return sm
}

// vhAll is a non-forking conjunction (arguments are evaluated eagerly).
func vhAll(bs ...bool) bool {
	r := true
	for _, b := range bs {
		r = vr.And(r, b)
	}
	return r
}

func vhHas(list []string, x string) bool {
	for _, l := range list {
		if l == x {
			return true
		}
	}
	return false
}

func vhHasLP(list []uint32, x uint32) bool {
	in := false
	for _, l := range list {
		in = vr.Or(in, l == x)
	}
	return in
}

// VerifFRRConfigIR (C14, IR level): the structured configuration handed to the templates offers each
// neighbor exactly what was requested on its session.
func VerifFRRConfigIR(nsess, nadv0, order, kind int) {
	sess := vhSessions(nsess, nadv0, kind)
	cfg, err := vhManager(sess, false).createConfig()
	vr.Assert(vhAll(err == nil, cfg != nil), "createConfig failed although repeated prefixes carry equal local preferences")
	seen := 0
	for _, r := range cfg.Routers {
		var r4, r6 []vhReq
		for _, nb := range r.Neighbors {
			var s *vhSess
			for _, c := range sess {
				if c.params.PeerAddress == nb.Addr && c.params.VRFName == r.VRF {
					s = c
				}
			}
			vr.Assert(s != nil, "a neighbor that was never requested")
			if s == nil {
				continue
			}
			seen++
			vr.Assert(vhAll(nb.Port == s.params.PeerPort, nb.VRFName == s.params.VRFName, r.MyASN == s.params.MyASN), "session parameters on the wrong neighbor")
			wantFam := ipfamily.IPv4
			if s.params.PeerAddress == "fc00::2" {
				wantFam = ipfamily.IPv6
			}
			vr.Assert(nb.IPFamily == wantFam, "neighbor address family")
			// one entry per distinct requested prefix, sorted, with merged communities and the requested local preference
			for i := 0; i+1 < len(nb.Advertisements); i++ {
				vr.Assert(nb.Advertisements[i].Prefix < nb.Advertisements[i+1].Prefix, "advertisements of a neighbor not sorted / not unique by prefix")
			}
			for _, q := range s.reqs {
				found := false
				for _, a := range nb.Advertisements {
					found = vr.Or(found, a.Prefix == q.prefix)
				}
				vr.Assert(found, "a requested prefix is missing from the neighbor's advertisements")
			}
			has4, has6 := false, false
			var use [2][3]bool // [family][c1,c2,large] used by some advertisement
			var lps [2][3]bool // [family][0,100,200] (index 1,2 = 100,200)
			for _, a := range nb.Advertisements {
				any := false
				w1, w2, wl := false, false, false
				var wlp uint32
				isV6 := false
				for _, q := range s.reqs {
					m := a.Prefix == q.prefix
					any = vr.Or(any, m)
					w1 = vr.Or(w1, vr.And(m, q.c1))
					w2 = vr.Or(w2, vr.And(m, q.c2))
					wl = vr.Or(wl, vr.And(m, q.large))
					wlp = vr.IteU32(m, q.lp, wlp)
					isV6 = vr.Or(isV6, vr.And(m, q.v6))
				}
				vr.Assert(any, "an advertisement nobody requested")
				vr.Assert(vr.IteBool(isV6, a.IPFamily == ipfamily.IPv6, a.IPFamily == ipfamily.IPv4), "advertisement address family")
				vr.Assert(a.LocalPref == wlp, "advertisement does not carry the requested local preference")
				vr.Assert(vhAll(vhHas(a.Communities, "1:100") == w1, vhHas(a.Communities, "1:200") == w2, len(a.Communities) <= 2), "standard communities are not the union of those requested for the prefix")
				vr.Assert(vhAll(vhHas(a.LargeCommunities, "64512:1:2") == wl, len(a.LargeCommunities) <= 1), "large communities are not the union of those requested for the prefix")
				has6 = vr.Or(has6, isV6)
				has4 = vr.Or(has4, !isV6)
				for f := 0; f < 2; f++ {
					inFam := isV6
					if f == 0 {
						inFam = !isV6
					}
					use[f][0] = vr.Or(use[f][0], vr.And(inFam, w1))
					use[f][1] = vr.Or(use[f][1], vr.And(inFam, w2))
					use[f][2] = vr.Or(use[f][2], vr.And(inFam, wl))
					lps[f][1] = vr.Or(lps[f][1], vr.And(inFam, wlp == 100))
					lps[f][2] = vr.Or(lps[f][2], vr.And(inFam, wlp == 200))
				}
			}
			vr.Assert(vhAll(nb.HasV4Advertisements == has4, nb.HasV6Advertisements == has6), "per-family activation flags")
			// the per-family lists name exactly the values used by at least one advertisement of that family
			vr.Assert(vhAll(vhHas(nb.CommunitiesV4, "1:100") == use[0][0], vhHas(nb.CommunitiesV4, "1:200") == use[0][1], len(nb.CommunitiesV4) <= 2), "IPv4 community list")
			vr.Assert(vhAll(vhHas(nb.CommunitiesV6, "1:100") == use[1][0], vhHas(nb.CommunitiesV6, "1:200") == use[1][1], len(nb.CommunitiesV6) <= 2), "IPv6 community list")
			vr.Assert(vhAll(vhHas(nb.LargeCommunitiesV4, "64512:1:2") == use[0][2], len(nb.LargeCommunitiesV4) <= 1), "IPv4 large-community list")
			vr.Assert(vhAll(vhHas(nb.LargeCommunitiesV6, "64512:1:2") == use[1][2], len(nb.LargeCommunitiesV6) <= 1), "IPv6 large-community list")
			vr.Assert(vhAll(vhHasLP(nb.LocalPrefsV4, 100) == lps[0][1], vhHasLP(nb.LocalPrefsV4, 200) == lps[0][2], !vhHasLP(nb.LocalPrefsV4, 0), len(nb.LocalPrefsV4) <= 2), "IPv4 local-preference list")
			vr.Assert(vhAll(vhHasLP(nb.LocalPrefsV6, 100) == lps[1][1], vhHasLP(nb.LocalPrefsV6, 200) == lps[1][2], !vhHasLP(nb.LocalPrefsV6, 0), len(nb.LocalPrefsV6) <= 2), "IPv6 local-preference list")
			for _, q := range s.reqs {
				if q.v6 {
					r6 = append(r6, q)
				} else {
					r4 = append(r4, q)
				}
			}
		}
		// router prefixes: exactly the union, sorted
		check := func(list []string, reqs []vhReq) {
			for i := 0; i+1 < len(list); i++ {
				vr.Assert(list[i] < list[i+1], "router prefixes not sorted / not unique")
			}
			for _, q := range reqs {
				in := false
				for _, l := range list {
					in = vr.Or(in, l == q.prefix)
				}
				vr.Assert(in, "a requested prefix is not originated by its router")
			}
			for _, l := range list {
				in := false
				for _, q := range reqs {
					in = vr.Or(in, l == q.prefix)
				}
				vr.Assert(in, "the router originates a prefix nobody requested")
			}
		}
		check(r.IPV4Prefixes, r4)
		check(r.IPV6Prefixes, r6)
	}
	vr.Assert(seen == len(sess), "a session is missing from the configuration")
	// determinism
	vr.MapOrder(order)
	cfg2, err2 := vhManager(sess, true).createConfig()
	vr.MapOrder(vr.OrderInsertion)
	vr.Assert(vhAll(err2 == nil, reflect.DeepEqual(cfg, cfg2)), "the configuration depends on session creation order or map iteration order")
	vr.Reach("frr configuration checked")
}
