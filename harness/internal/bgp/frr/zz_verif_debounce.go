//go:build verif

package frr

import (
	"errors"
	"reflect"

	"github.com/go-kit/log"
	vr "go.universe.tf/metallb/internal/verifrt"
)

func init() {
	verifHarnesses["VerifDebouncer"] = func(a []int) { VerifDebouncer(a[0]) }
}

// vhCfgMenu returns a fresh configuration object; equal indices give structurally equal (but distinct) objects.
func vhCfgMenu(k int) *frrConfig {
	return &frrConfig{Hostname: "h", Loglevel: "informational", Routers: []*routerConfig{{MyASN: uint32(64512 + k), RouterID: "10.0.0.1"}}}
}

var vhErrReload = errors.New("reload failed")

// VerifDebouncer (C19): the environment submits configurations / re-apply requests and lets the
// debounce timer expire, in any order; reload attempts fail arbitrarily for a while.
func VerifDebouncer(steps int) {
	reload := make(chan reloadEvent)
	var latest, lastOK *frrConfig
	failing := true
	calls := 0
	body := func(c *frrConfig) error {
		calls++
		vr.Assert(latest != nil && reflect.DeepEqual(c, latest), "a configuration older than the most recently submitted one was applied")
		if failing && vr.Bool() {
			return vhErrReload
		}
		lastOK = c
		return nil
	}
	debouncer(body, reload, vr.TimerDuration, vr.TimerDuration, log.NewNopLogger())
	for i := 0; i < steps; i++ {
		switch vr.Choose(3) {
		case 0: // submit one of three configurations (possibly identical to the previous one)
			c := vhCfgMenu(vr.Choose(3))
			idle := vr.Symbolic() && !vr.TimerPending()
			same := latest != nil && reflect.DeepEqual(c, latest)
			latest = c
			before := calls
			reload <- reloadEvent{config: c}
			vr.Yield()
			if idle && same {
				// resubmitting an identical configuration while idle must not arm a reload
				vr.Assert(!vr.TimerPending() && calls == before, "an identical configuration caused a reload")
				vr.Reach("identical resubmission ignored")
			}
		case 1: // re-apply request
			reload <- reloadEvent{useOld: true}
			vr.Yield()
		case 2: // the pending timer expires
			vr.Assume(vr.TimerPending())
			vr.FireTimer()
			vr.Yield()
		}
		if vr.Symbolic() && !vr.TimerPending() {
			// idle: nothing is waiting to be applied
			vr.Assert(latest == nil || (lastOK != nil && reflect.DeepEqual(lastOK, latest)), "idle although the most recently submitted configuration was not applied")
		}
	}
	// failures stop: the last submitted configuration is eventually the one applied
	failing = false
	for k := 0; k < 3; k++ {
		vr.FireTimer()
		vr.Yield()
	}
	vr.Assert(latest == nil || (lastOK != nil && reflect.DeepEqual(lastOK, latest)), "after failures stopped the last applied configuration is not the most recently submitted one")
	vr.Reach("debouncer settled")
}
