//go:build verif

package frr

import (
	"errors"
	"os"
	"reflect"

	"github.com/go-kit/log"
	metallbconfig "go.universe.tf/metallb/internal/config"
	vr "go.universe.tf/metallb/internal/verifrt"
)

func init() {
	verifHarnesses["VerifDebouncer"] = func(a []int) { VerifDebouncer(a[0]) }
}

// vhCfgMenu returns a fresh configuration object; equal indices give structurally equal (but distinct) objects.
func vhCfgMenu(k int) *frrConfig {
	return &frrConfig{Hostname: "h", Loglevel: "informational", Routers: []*routerConfig{{MyASN: uint32(64512 + k), RouterID: "10.0.0.1"}}}
}

var vhErrReload = errors.New("reload failed")

// VerifDebouncer (C19): the environment submits configurations / re-apply requests and lets the
// debounce timer expire, in any order; reload attempts fail arbitrarily for a while.
func VerifDebouncer(steps int) {
	reload := make(chan reloadEvent)
	var latest, lastOK *frrConfig
	failing := true
	calls := 0
	body := func(c *frrConfig) error {
		calls++
		vr.Assert(latest != nil && reflect.DeepEqual(c, latest), "a configuration older than the most recently submitted one was applied")
		if failing && vr.Bool() {
			return vhErrReload
		}
		lastOK = c
		return nil
	}
	debouncer(body, reload, vr.TimerDuration, vr.TimerDuration, log.NewNopLogger())
	for i := 0; i < steps; i++ {
		switch vr.Choose(3) {
		case 0: // submit one of three configurations (possibly identical to the previous one)
			c := vhCfgMenu(vr.Choose(3))
			idle := vr.Symbolic() && !vr.TimerPending()
			same := latest != nil && reflect.DeepEqual(c, latest)
			latest = c
			before := calls
			reload <- reloadEvent{config: c}
			vr.Yield()
			if idle && same {
				// resubmitting an identical configuration while idle must not arm a reload
				vr.Assert(!vr.TimerPending() && calls == before, "an identical configuration caused a reload")
				vr.Reach("identical resubmission ignored")
			}
		case 1: // re-apply request
			reload <- reloadEvent{useOld: true}
			vr.Yield()
		case 2: // the pending timer expires
			vr.Assume(vr.TimerPending())
			vr.FireTimer()
			vr.Yield()
		}
		if vr.Symbolic() && !vr.TimerPending() {
			// idle: nothing is waiting to be applied
			vr.Assert(latest == nil || (lastOK != nil && reflect.DeepEqual(lastOK, latest)), "idle although the most recently submitted configuration was not applied")
		}
	}
	// failures stop: the last submitted configuration is eventually the one applied
	failing = false
	for k := 0; k < 3; k++ {
		vr.FireTimer()
		vr.Yield()
	}
	vr.Assert(latest == nil || (lastOK != nil && reflect.DeepEqual(lastOK, latest)), "after failures stopped the last applied configuration is not the most recently submitted one")
	vr.Reach("debouncer settled")
}

func init() {
	verifHarnesses["VerifDebouncerReload"] = func(a []int) { VerifDebouncerReload(a[0]) }
}

// VerifDebouncerReload (C19): as VerifDebouncer, but the body is the production one
// (generateAndReloadConfigFile: real templates, file write, reload request). The environment owns the
// file system (the configuration file's directory may be missing for a while) and the reloader (the
// package variable reloadConfig), which reads the file back, checks that it is the rendering of the most
// recently submitted configuration and fails on symbolic attempts.
func VerifDebouncerReload(steps int) {
	dir := vhTempDir()
	if !vr.Symbolic() {
		defer os.RemoveAll(dir)
	}
	good, bad := dir+"/frr.conf", dir+"/verif-missing-dir/frr.conf"
	configFileName = good
	reload := make(chan reloadEvent)
	var latest *frrConfig
	appliedLatest := false
	failing := true
	reloadConfig = func() error {
		data, err := os.ReadFile(good)
		vr.Assert(err == nil, "reload requested although the configuration file was not written")
		want, err2 := templateConfig(latest)
		vr.Assert(err2 == nil && latest != nil && string(data) == want, "the file handed to the reloader is not the rendering of the most recently submitted configuration")
		if failing && vr.Bool() {
			return vhErrReload
		}
		appliedLatest = true
		return nil
	}
	body := func(c *frrConfig) error { return generateAndReloadConfigFile(c, log.NewNopLogger()) }
	debouncer(body, reload, vr.TimerDuration, vr.TimerDuration, log.NewNopLogger())
	for i := 0; i < steps; i++ {
		switch vr.Choose(3) {
		case 0:
			c := vhCfgMenu(vr.Choose(2))
			if latest == nil || !reflect.DeepEqual(c, latest) {
				appliedLatest = false
			}
			latest = c
			reload <- reloadEvent{config: c}
			vr.Yield()
		case 1: // the pending timer expires; the directory may be missing at that moment
			vr.Assume(vr.TimerPending())
			if failing && vr.Bool() {
				configFileName = bad
			}
			vr.FireTimer()
			vr.Yield()
			configFileName = good
		case 2:
			reload <- reloadEvent{useOld: true}
			vr.Yield()
		}
		if vr.Symbolic() && !vr.TimerPending() {
			vr.Assert(latest == nil || appliedLatest, "idle although the most recently submitted configuration was not applied (a failed write or reload was not retried)")
		}
	}
	failing = false
	for k := 0; k < 3; k++ {
		vr.FireTimer()
		vr.Yield()
	}
	vr.Assert(latest == nil || appliedLatest, "after failures stopped the most recently submitted configuration is still not applied")
	vr.Reach("reload path settled")
}

func vhTempDir() string {
	if vr.Symbolic() {
		return "/verif-tmp"
	}
	d, err := os.MkdirTemp("", "verif-frr")
	if err != nil {
		panic(err)
	}
	return d
}

func init() {
	verifHarnesses["VerifManagerReload"] = func(a []int) { VerifManagerReload() }
}

// VerifManagerReload (C19 at the level of the session manager): the configuration the manager submits
// after every change (BFD profile sync, extra configuration) reaches the reload body: after each change and
// the expiry of the debounce timer, the configuration applied last shows the change. A submitted
// configuration must not be altered by later changes (it is compared with the next one to drop no-ops).
func VerifManagerReload() {
	osHostname = func() (string, error) { return "verif-host", nil }
	sm := &sessionManager{sessions: map[string]*session{}, bfdProfiles: []BFDProfile{}, reloadConfig: make(chan reloadEvent), logLevel: "informational"}
	var lastRx uint32
	lastExtra := ""
	applies := 0
	body := func(c *frrConfig) error {
		applies++
		lastRx = 0
		if len(c.BFDProfiles) > 0 && c.BFDProfiles[0].ReceiveInterval != nil {
			lastRx = *c.BFDProfiles[0].ReceiveInterval
		}
		lastExtra = c.ExtraConfig
		return nil
	}
	debouncer(body, sm.reloadConfig, vr.TimerDuration, vr.TimerDuration, log.NewNopLogger())
	rx := func(v uint32) map[string]*metallbconfig.BFDProfile {
		return map[string]*metallbconfig.BFDProfile{"fast": {Name: "fast", ReceiveInterval: &v}}
	}
	wantRx, wantExtra := uint32(0), ""
	for i := 0; i < 3; i++ {
		switch vr.Choose(3) {
		case 0:
			wantRx = uint32(100 * (1 + vr.Choose(2)))
			vr.Assert(sm.SyncBFDProfiles(rx(wantRx)) == nil, "SyncBFDProfiles failed")
		case 1:
			wantExtra = vr.PickString("", "debug bgp updates")
			vr.Assert(sm.SyncExtraInfo(wantExtra) == nil, "SyncExtraInfo failed")
		case 2:
			// nothing changes in this round
		}
		vr.Yield()
		vr.FireTimer()
		vr.Yield()
		vr.Assert(applies == 0 || (lastRx == wantRx && lastExtra == wantExtra), "after the debounce timer the applied configuration does not show the latest change")
	}
	vr.Assert(applies > 0 || (wantRx == 0 && wantExtra == ""), "changes were submitted but nothing was ever applied")
	vr.Reach("manager reload settled")
}
