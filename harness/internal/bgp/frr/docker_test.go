//go:build verif

// Overlay-only replacement of docker_test.go for native replays: the original TestMain needs a Docker
// daemon, which does not exist in the verification sandbox. Nothing here is executed by the replay
// (only TestVerifReplay is selected); the identifiers exist so that the other test files compile.
package frr

import "errors"

type invalidFileErr struct {
	Reason string
}

func (e invalidFileErr) Error() string { return e.Reason }

func testFileIsValid(fileName string) error {
	return errors.New("FRR validity checker not available in the verification overlay")
}
