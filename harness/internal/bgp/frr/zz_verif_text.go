//go:build verif

package frr

import (
	"net"
	"reflect"
	"strconv"
	"strings"

	"time"

	"go.universe.tf/metallb/internal/bgp"
	"go.universe.tf/metallb/internal/bgp/community"
	vr "go.universe.tf/metallb/internal/verifrt"
)

// Text level of C14: the configuration TEXT produced by the real templateConfig (real templates, real
// FuncMap) is parsed by a small interpreter of the FRR commands the templates use and evaluated with
// FRR's semantics:
//
//   - prefix-list: entries of one (family, name) list in sequence order, first matching entry decides,
//     "permit P" matches exactly P (no le/ge), "any" matches every prefix of the family, no match = deny;
//     a later entry with the same sequence number replaces the earlier one
//   - route-map: entries in sequence order; an entry without match clause matches everything; a match
//     clause for the other address family does not match; a matching deny entry rejects; a matching permit
//     entry applies its set clauses and ends the evaluation unless it says "on-match next"; a route that
//     matched at least one permit entry and no deny entry is permitted; no match = deny;
//     "set community X additive" adds, without "additive" replaces
//   - "neighbor P route-map N out|in" inside "address-family F unicast" of "router bgp ASN [vrf V]" binds the
//     filters; a neighbor that is not activated in a family is offered nothing of that family
//   - "network P" inside an address family originates P

func init() {
	verifHarnesses["VerifFRRText"] = func(a []int) { VerifFRRText(a[0], a[1], a[2], a[3]) }
	verifHarnesses["VerifFRRTextParams"] = func(a []int) { VerifFRRTextParams(a[0]) }
}

type vhPL struct {
	fam    string // "ip" / "ipv6"
	name   string
	seq    int
	permit bool
	any    bool
	prefix string
}

type vhRM struct {
	name     string
	permit   bool
	seq      int
	hasMatch bool
	matchFam string
	matchPL  string
	badMatch bool // a match clause this interpreter does not know: never matches
	setLP    bool
	lp       string
	comms    []vhSetComm
	next     bool
}

type vhSetComm struct {
	large    bool
	value    string
	additive bool
}

type vhNbr struct {
	peer     string
	remoteAS string
	lines    [][]string // every "neighbor <peer> ..." line of the router block (outside address families)
	act      [2]bool
	rmIn     [2]string
	rmOut    [2]string
	hasIn    [2]bool
	hasOut   [2]bool
}

type vhRouter struct {
	asn  string
	vrf  string
	nbrs []*vhNbr
	nets [2][]string
}

type vhFRR struct {
	pls     []*vhPL
	rms     []*vhRM
	routers []*vhRouter
	unknown int
}

func vhAtoi(s string) int {
	n, err := strconv.Atoi(s)
	if err != nil {
		return -1
	}
	return n
}

func (r *vhRouter) nbr(peer string) *vhNbr {
	for _, n := range r.nbrs {
		if n.peer == peer {
			return n
		}
	}
	n := &vhNbr{peer: peer}
	r.nbrs = append(r.nbrs, n)
	return n
}

// vhParseFRR reads the commands the interpreter understands; everything else is ignored (log, debug,
// hostname, nht, bfd profiles, bgp options).
func vhParseFRR(text string) *vhFRR {
	f := &vhFRR{}
	var router *vhRouter
	var rm *vhRM
	af := -1
	for _, line := range strings.Split(text, "\n") {
		t := strings.Fields(line)
		if len(t) == 0 {
			continue
		}
		switch {
		case (t[0] == "ip" || t[0] == "ipv6") && len(t) >= 7 && t[1] == "prefix-list" && t[3] == "seq":
			rm, router, af = nil, nil, -1
			e := &vhPL{fam: t[0], name: t[2], seq: vhAtoi(t[4]), permit: t[5] == "permit"}
			if t[6] == "any" {
				e.any = true
			} else {
				e.prefix = t[6]
			}
			if len(t) > 7 || (t[5] != "permit" && t[5] != "deny") {
				f.unknown++ // le / ge or an unknown action: outside the interpreter
			}
			f.pls = append(f.pls, e)
		case t[0] == "route-map" && len(t) == 4:
			router, af = nil, -1
			rm = &vhRM{name: t[1], permit: t[2] == "permit", seq: vhAtoi(t[3])}
			if t[2] != "permit" && t[2] != "deny" {
				f.unknown++
			}
			f.rms = append(f.rms, rm)
		case rm != nil && t[0] == "match":
			if rm.hasMatch {
				f.unknown++ // several match clauses: conjunction, not produced by the templates
			}
			rm.hasMatch = true
			if len(t) == 5 && (t[1] == "ip" || t[1] == "ipv6") && t[2] == "address" && t[3] == "prefix-list" {
				rm.matchFam, rm.matchPL = t[1], t[4]
			} else {
				rm.badMatch = true
			}
		case rm != nil && t[0] == "set":
			switch {
			case len(t) == 3 && t[1] == "local-preference":
				rm.setLP, rm.lp = true, t[2]
			case (len(t) == 3 || len(t) == 4) && (t[1] == "community" || t[1] == "large-community"):
				rm.comms = append(rm.comms, vhSetComm{large: t[1] == "large-community", value: t[2], additive: len(t) == 4 && t[3] == "additive"})
			default:
				f.unknown++
			}
		case rm != nil && t[0] == "on-match" && len(t) == 2 && t[1] == "next":
			rm.next = true
		case t[0] == "router" && len(t) >= 3 && t[1] == "bgp":
			rm, af = nil, -1
			router = &vhRouter{asn: t[2]}
			if len(t) == 5 && t[3] == "vrf" {
				router.vrf = t[4]
			}
			f.routers = append(f.routers, router)
		case router != nil && t[0] == "address-family" && len(t) == 3:
			af = 0
			if t[1] == "ipv6" {
				af = 1
			}
		case router != nil && t[0] == "exit-address-family":
			af = -1
		case router != nil && af >= 0 && t[0] == "network" && len(t) == 2:
			router.nets[af] = append(router.nets[af], t[1])
		case router != nil && t[0] == "neighbor" && len(t) >= 3:
			n := router.nbr(t[1])
			if af < 0 {
				if t[2] == "remote-as" && len(t) == 4 {
					n.remoteAS = t[3]
				}
				if t[2] == "interface" && len(t) == 5 && t[3] == "remote-as" {
					n.remoteAS = t[4]
				}
				n.lines = append(n.lines, t[2:])
				continue
			}
			switch {
			case t[2] == "activate":
				n.act[af] = true
			case t[2] == "route-map" && len(t) == 5 && t[4] == "in":
				n.rmIn[af], n.hasIn[af] = t[3], true
			case t[2] == "route-map" && len(t) == 5 && t[4] == "out":
				n.rmOut[af], n.hasOut[af] = t[3], true
			default:
				f.unknown++
			}
		default:
			if rm != nil && t[0] != "route-map" {
				// first line that is not part of the route-map entry ends it
				rm = nil
			}
		}
	}
	return f
}

// plPermits: does prefix-list (fam, name) permit prefix p of family fam?
func (f *vhFRR) plPermits(fam, name, p string) bool {
	res, decided := false, false
	// entries in sequence order (the lists are short: selection by repeated minimum)
	used := make([]bool, len(f.pls))
	for range f.pls {
		best := -1
		for i, e := range f.pls {
			if !used[i] && (best < 0 || e.seq < f.pls[best].seq) {
				best = i
			}
		}
		used[best] = true
		e := f.pls[best]
		if e.fam != fam {
			continue
		}
		mine := e.name == name
		// replaced by a later line with the same sequence number in the same list
		for j := best + 1; j < len(f.pls); j++ {
			o := f.pls[j]
			if o.fam == fam && o.seq == e.seq {
				mine = vr.And(mine, vr.Not(o.name == name))
			}
		}
		m := mine
		if !e.any {
			m = vr.And(mine, e.prefix == p)
		}
		hit := vr.And(vr.Not(decided), m)
		res = vr.Or(res, vr.And(hit, e.permit))
		decided = vr.Or(decided, m)
	}
	return res
}

type vhFate struct {
	permit        bool
	lpSet         bool
	lpIs          bool // the local preference set last equals the expected text
	c1, c2, large bool
	otherComm     bool
}

// apply evaluates route-map name on prefix p of family fam ("ip"/"ipv6"); wantLP is the text the local
// preference is compared with.
func (f *vhFRR) apply(name, fam, p, wantLP string) vhFate {
	var r vhFate
	done := false
	used := make([]bool, len(f.rms))
	for range f.rms {
		best := -1
		for i, e := range f.rms {
			if !used[i] && (best < 0 || e.seq < f.rms[best].seq) {
				best = i
			}
		}
		used[best] = true
		e := f.rms[best]
		mine := e.name == name
		for j := best + 1; j < len(f.rms); j++ {
			if o := f.rms[j]; o.seq == e.seq {
				mine = vr.And(mine, vr.Not(o.name == name))
			}
		}
		m := mine
		if e.hasMatch {
			if e.badMatch || e.matchFam != fam {
				m = false
			} else {
				m = vr.And(mine, f.plPermits(fam, e.matchPL, p))
			}
		}
		act := vr.And(vr.Not(done), m)
		if !e.permit {
			r.permit = vr.And(r.permit, vr.Not(act))
			done = vr.Or(done, act)
			continue
		}
		r.permit = vr.Or(r.permit, act)
		if e.setLP {
			r.lpSet = vr.Or(r.lpSet, act)
			r.lpIs = vr.IteBool(act, e.lp == wantLP, r.lpIs)
		}
		for _, c := range e.comms {
			is1 := !c.large && c.value == "1:100"
			is2 := !c.large && c.value == "1:200"
			isL := c.large && c.value == "64512:1:2"
			if !c.additive {
				if c.large {
					r.large = vr.And(r.large, vr.Not(act))
				} else {
					r.c1, r.c2 = vr.And(r.c1, vr.Not(act)), vr.And(r.c2, vr.Not(act))
				}
			}
			r.c1 = vr.Or(r.c1, vr.And(act, is1))
			r.c2 = vr.Or(r.c2, vr.And(act, is2))
			r.large = vr.Or(r.large, vr.And(act, isL))
			if !is1 && !is2 && !isL {
				r.otherComm = vr.Or(r.otherComm, act)
			}
		}
		if !e.next {
			done = vr.Or(done, act)
		}
	}
	return r
}

func (f *vhFRR) router(asn uint32, vrf string) *vhRouter {
	var found *vhRouter
	for _, r := range f.routers {
		if r.asn == strconv.FormatUint(uint64(asn), 10) && r.vrf == vrf {
			vr.Assert(found == nil, "two router blocks for one ASN and VRF")
			found = r
		}
	}
	return found
}

func vhFamName(v6 bool) (int, string) {
	if v6 {
		return 1, "ipv6"
	}
	return 0, "ip"
}

// vhCheckText asserts the clauses of C14 on the parsed text for the requested sessions.
func vhCheckText(f *vhFRR, sess []*vhSess) {
	if f.unknown != 0 {
		vr.Unsupported("the generated text uses a filter construct outside the FRR subset this interpreter knows")
	}
	// candidate prefixes: every requested prefix of every session plus one unrequested prefix per family
	type cand struct {
		p  string
		v6 bool
	}
	var cands []cand
	for _, s := range sess {
		for _, q := range s.reqs {
			cands = append(cands, cand{q.prefix, q.v6})
		}
	}
	other4 := &net.IPNet{IP: net.IP{10, 0, vr.Byte(), 0}, Mask: net.CIDRMask(24, 32)}
	other6 := net.ParseIP("fd00::")
	other6[7] = vr.Byte()
	cands = append(cands, cand{other4.String(), false}, cand{(&net.IPNet{IP: other6, Mask: net.CIDRMask(64, 128)}).String(), true})
	nblocks := 0
	for _, s := range sess {
		r := f.router(s.params.MyASN, s.params.VRFName)
		vr.Assert(r != nil, "no router block for a session's ASN and VRF")
		if r == nil {
			continue
		}
		var n *vhNbr
		for _, c := range r.nbrs {
			if c.peer == s.params.PeerAddress {
				n = c
			}
		}
		vr.Assert(n != nil, "a requested neighbor is missing from its router block")
		if n == nil {
			continue
		}
		nblocks++
		vr.Assert(n.remoteAS == strconv.FormatUint(uint64(s.params.PeerASN), 10), "remote-as of the neighbor")
		for fam := 0; fam < 2; fam++ {
			wantAct := !s.params.DisableMP || (fam == 1) == (strings.Contains(s.params.PeerAddress, ":"))
			vr.Assert(n.act[fam] == wantAct, "per-family activation of the neighbor")
			vr.Assert(vr.Implies(n.act[fam], vhAll(n.hasIn[fam], n.hasOut[fam])), "neighbor activated in an address family without inbound and outbound filters")
		}
		for _, c := range cands {
			fi, fam := vhFamName(c.v6)
			want, w1, w2, wl := false, false, false, false
			var wlp uint32
			for _, q := range s.reqs {
				if q.v6 != c.v6 {
					continue
				}
				m := q.prefix == c.p
				want = vr.Or(want, m)
				w1 = vr.Or(w1, vr.And(m, q.c1))
				w2 = vr.Or(w2, vr.And(m, q.c2))
				wl = vr.Or(wl, vr.And(m, q.large))
				wlp = vr.IteU32(m, q.lp, wlp)
			}
			if !n.act[fi] {
				continue // nothing of this family is exchanged with the neighbor
			}
			out := f.apply(n.rmOut[fi], fam, c.p, strconv.FormatUint(uint64(wlp), 10))
			vr.Assert(vr.Iff(out.permit, want), "outbound filter of a neighbor does not offer exactly the prefixes requested on its session")
			vr.Assert(vr.Implies(want, vr.Iff(out.lpSet, wlp != 0)), "local preference set for a prefix that requested none, or missing for one that did")
			vr.Assert(vr.Implies(vr.And(want, wlp != 0), out.lpIs), "a prefix is offered with a local preference other than the requested one")
			vr.Assert(vr.Implies(want, vhAll(vr.Iff(out.c1, w1), vr.Iff(out.c2, w2), vr.Iff(out.large, wl), !out.otherComm)), "a prefix is offered with communities other than the union of those requested for it")
			in := f.apply(n.rmIn[fi], fam, c.p, "")
			vr.Assert(!in.permit, "the inbound filter accepts a route")
		}
	}
	// neighbors nobody requested
	total := 0
	for _, r := range f.routers {
		total += len(r.nbrs)
	}
	vr.Assert(total == nblocks, "the text configures a neighbor that was never requested")
	// originated prefixes per router: exactly the union of what its sessions requested
	for _, r := range f.routers {
		for fam := 0; fam < 2; fam++ {
			var reqs []vhReq
			for _, s := range sess {
				if strconv.FormatUint(uint64(s.params.MyASN), 10) == r.asn && s.params.VRFName == r.vrf {
					for _, q := range s.reqs {
						if q.v6 == (fam == 1) {
							reqs = append(reqs, q)
						}
					}
				}
			}
			for _, q := range reqs {
				in := false
				for _, l := range r.nets[fam] {
					in = vr.Or(in, l == q.prefix)
				}
				vr.Assert(in, "a requested prefix is not originated (network statement) by its router")
			}
			for _, l := range r.nets[fam] {
				in := false
				for _, q := range reqs {
					in = vr.Or(in, l == q.prefix)
				}
				vr.Assert(in, "the router originates a prefix nobody requested")
			}
		}
	}
}

// VerifFRRText (C14, text level): createConfig + templateConfig (real templates) + FRR interpreter.
func VerifFRRText(nsess, nadv0, order, kind int) {
	sess := vhSessions(nsess, nadv0, kind)
	cfg, err := vhManager(sess, false).createConfig()
	vr.Assert(vhAll(err == nil, cfg != nil), "createConfig failed although repeated prefixes carry equal local preferences")
	text, err := templateConfig(cfg)
	vr.Assert(err == nil, "templateConfig failed")
	vr.Observe("frr.conf", text)
	vhCheckText(vhParseFRR(text), sess)
	// determinism of the text
	vr.MapOrder(order)
	cfg2, err2 := vhManager(sess, true).createConfig()
	vr.MapOrder(vr.OrderInsertion)
	vr.Assert(err2 == nil, "createConfig failed on the reversed session order")
	text2, err3 := templateConfig(cfg2)
	vr.Assert(vhAll(err3 == nil, text == text2), "the text depends on session creation order or map iteration order")
	vr.Reach("frr text checked")
}

func vhLineIs(l []string, want []string) bool {
	if len(l) != len(want) {
		return false
	}
	r := true
	for i := range l {
		r = vr.And(r, l[i] == want[i])
	}
	return r
}

// VerifFRRTextParams (C14, text level): the session parameters appear on the right neighbor, and only there.
func VerifFRRTextParams(variant int) {
	d := func(sec int) *time.Duration { x := time.Duration(sec) * time.Second; return &x }
	base := func(addr string, asn uint32) bgp.SessionParameters {
		return bgp.SessionParameters{PeerAddress: addr, MyASN: 64512, PeerASN: asn, RouterID: net.ParseIP("10.255.0.1"), CurrentNode: "node-me"}
	}
	a := base("192.168.1.1", vr.Uint32())
	b := base("192.168.1.2", vr.Uint32())
	switch variant {
	case 0:
		a.PeerPort = vr.Uint16()
		a.Password = "secret-a"
		a.EBGPMultiHop = vr.Bool()
		b.GracefulRestart = vr.Bool()
		b.SourceAddress = net.ParseIP("192.168.1.100")
	case 1:
		a.PeerAddress, a.PeerInterface, a.PeerASN, a.DynamicASN = "", "eth9", 0, "external"
		b.PeerPort = 1179
		b.DynamicASN, b.PeerASN = "internal", 0
	case 2:
		a.HoldTime, a.KeepAliveTime, a.ConnectTime = d(90), d(30), d(10)
		a.BFDProfile = "fast"
		a.VRFName = "red"
		b.HoldTime = d(90) // keepalive missing: no timers line
		b.ConnectTime = d(20) // but a connect timer of its own
		b.DisableMP = true
	case 3:
		a.PeerAddress = "fc00::2"
		a.DisableMP = vr.Bool()
		b.PeerAddress = "fc00::3"
		b.Password = "secret-b"
		b.PeerPort = vr.Uint16()
	}
	sess := []*vhSess{{params: a}, {params: b}}
	sm := vhManager(sess, vr.Bool())
	if variant == 2 {
		sm.bfdProfiles = []BFDProfile{{Name: "fast"}}
	}
	cfg, err := sm.createConfig()
	vr.Assert(vhAll(err == nil, cfg != nil), "createConfig failed")
	text, err := templateConfig(cfg)
	vr.Assert(err == nil, "templateConfig failed")
	vr.Observe("frr.conf", text)
	f := vhParseFRR(text)
	if f.unknown != 0 {
		vr.Unsupported("the generated text uses a filter construct outside the FRR subset this interpreter knows")
	}
	for _, s := range sess {
		p := s.params
		r := f.router(p.MyASN, p.VRFName)
		vr.Assert(r != nil, "no router block for a session's ASN and VRF")
		if r == nil {
			continue
		}
		peer := p.PeerAddress
		if p.PeerInterface != "" {
			peer = p.PeerInterface
		}
		var n *vhNbr
		for _, c := range r.nbrs {
			if c.peer == peer {
				n = c
			}
		}
		vr.Assert(n != nil, "a requested neighbor is missing from its router block")
		if n == nil {
			continue
		}
		asn := strconv.FormatUint(uint64(p.PeerASN), 10)
		if p.DynamicASN != "" {
			asn = p.DynamicASN
		}
		var want [][]string
		if p.PeerInterface != "" {
			want = append(want, []string{"interface", "remote-as", asn})
		} else {
			want = append(want, []string{"remote-as", asn})
		}
		if p.EBGPMultiHop {
			want = append(want, []string{"ebgp-multihop"})
		}
		if p.PeerPort != 0 {
			want = append(want, []string{"port", strconv.FormatUint(uint64(p.PeerPort), 10)})
		}
		if p.HoldTime != nil && p.KeepAliveTime != nil {
			want = append(want, []string{"timers", strconv.Itoa(int(*p.KeepAliveTime / time.Second)), strconv.Itoa(int(*p.HoldTime / time.Second))})
		}
		if p.ConnectTime != nil {
			want = append(want, []string{"timers", "connect", strconv.Itoa(int(*p.ConnectTime / time.Second))})
		}
		if p.Password != "" {
			want = append(want, []string{"password", p.Password})
		}
		if p.SourceAddress != nil {
			want = append(want, []string{"update-source", p.SourceAddress.String()})
		}
		if p.GracefulRestart {
			want = append(want, []string{"graceful-restart"})
		}
		if p.BFDProfile != "" {
			want = append(want, []string{"bfd"}, []string{"bfd", "profile", p.BFDProfile})
		}
		got := 0
		for _, l := range n.lines {
			// only the parameters the statement lists are compared; other neighbor lines (options implied by
			// the address family, future additions) are none of this check's business
			known := map[string]bool{"remote-as": true, "interface": true, "ebgp-multihop": true, "port": true, "timers": true,
				"password": true, "update-source": true, "graceful-restart": true, "bfd": true}
			if !known[l[0]] {
				continue
			}
			got++
			in := false
			for _, w := range want {
				in = vr.Or(in, vhLineIs(l, w))
			}
			vr.Assert(in, "a neighbor carries a parameter line that was not requested for it")
		}
		for _, w := range want {
			in := false
			for _, l := range n.lines {
				in = vr.Or(in, vhLineIs(l, w))
			}
			vr.Assert(in, "a requested session parameter is missing from its neighbor")
		}
		vr.Assert(got == len(want), "parameter lines of a neighbor are not exactly the requested ones")
		for fam := 0; fam < 2; fam++ {
			wantAct := !p.DisableMP || p.PeerInterface != "" || (fam == 1) == strings.Contains(p.PeerAddress, ":")
			vr.Assert(n.act[fam] == wantAct, "per-family activation of the neighbor")
			if n.act[fam] {
				cand := (&net.IPNet{IP: net.IP{10, 0, vr.Byte(), 0}, Mask: net.CIDRMask(24, 32)}).String()
				famName := "ip"
				if fam == 1 {
					cand = "fd00::/64"
					famName = "ipv6"
				}
				vr.Assert(vhAll(n.hasIn[fam], n.hasOut[fam]), "neighbor activated without filters")
				vr.Assert(!f.apply(n.rmOut[fam], famName, cand, "").permit, "a neighbor without advertisements is offered a prefix")
				vr.Assert(!f.apply(n.rmIn[fam], famName, cand, "").permit, "the inbound filter accepts a route")
			}
		}
	}
	vr.Reach("frr session parameters checked")
}

func init() {
	verifHarnesses["VerifFRRTextSample"] = func(a []int) { VerifFRRTextSample(a[0]) }
}

// VerifFRRTextSample: translator validation for the template evaluator. Session sets with concrete names
// (no abstract string order on the path) and symbolic numbers; the rendered text is handed to
// vr.Observe, so the native replay of every sampled path compares it byte for byte with what the
// real text/template produces. The FRR interpreter runs on it as well.
func VerifFRRTextSample(k int) {
	mk := func(prefix string, lp uint32, comms ...community.BGPCommunity) (*bgp.Advertisement, vhReq) {
		_, n, _ := net.ParseCIDR(prefix)
		r := vhReq{prefix: n.String(), v6: n.IP.To4() == nil, lp: lp}
		for _, c := range comms {
			switch c {
			case vhC1:
				r.c1 = true
			case vhC2:
				r.c2 = true
			case vhLarge:
				r.large = true
			}
		}
		return &bgp.Advertisement{Prefix: n, LocalPref: lp, Communities: comms}, r
	}
	lp := vr.IteU32(vr.Bool(), 100, 200)
	lp2 := vr.IteU32(vr.Bool(), 0, lp)
	var sess []*vhSess
	add := func(p bgp.SessionParameters, advs ...func() (*bgp.Advertisement, vhReq)) {
		s := &vhSess{params: p}
		for _, f := range advs {
			a, r := f()
			s.advs = append(s.advs, a)
			s.reqs = append(s.reqs, r)
		}
		sess = append(sess, s)
	}
	base := func(addr string, asn uint32) bgp.SessionParameters {
		return bgp.SessionParameters{PeerAddress: addr, PeerPort: 179, MyASN: 64512, PeerASN: asn, RouterID: net.ParseIP("10.255.0.1"), CurrentNode: "node-me"}
	}
	switch k {
	case 0:
		add(base("192.168.1.1", 64600),
			func() (*bgp.Advertisement, vhReq) { return mk("10.0.0.0/24", lp, vhC1) },
			func() (*bgp.Advertisement, vhReq) { return mk("10.0.1.0/24", lp2, vhC2, vhC1) },
			func() (*bgp.Advertisement, vhReq) { return mk("fd00::/64", lp2, vhLarge) })
		add(base("fc00::2", 64601), func() (*bgp.Advertisement, vhReq) { return mk("10.0.1.0/24", 0) })
	case 1:
		p := base("192.168.1.3", 64602)
		p.VRFName = "red"
		p.Password = "pw"
		p.EBGPMultiHop = true
		add(p, func() (*bgp.Advertisement, vhReq) { return mk("10.0.0.0/24", lp, vhLarge, vhC2) },
			func() (*bgp.Advertisement, vhReq) { return mk("10.0.0.0/24", lp, vhC1) })
		add(base("192.168.1.1", 64600))
	default:
		add(base("fc00::2", 64512), func() (*bgp.Advertisement, vhReq) { return mk("fd00:0:0:1::/64", lp2, vhLarge, vhC2) },
			func() (*bgp.Advertisement, vhReq) { return mk("fd00::/64", lp, vhC1, vhC2) })
		add(base("192.168.1.1", 64600), func() (*bgp.Advertisement, vhReq) { return mk("fd00::/64", 0) })
	}
	cfg, err := vhManager(sess, vr.Bool()).createConfig()
	vr.Assert(vhAll(err == nil, cfg != nil), "createConfig failed")
	text, err := templateConfig(cfg)
	vr.Assert(err == nil, "templateConfig failed")
	vr.Observe("frr.conf", text)
	vhCheckText(vhParseFRR(text), sess)
	vr.Reach("frr text sample checked")
}

func init() {
	verifHarnesses["VerifFRRSetRefused"] = func(a []int) { VerifFRRSetRefused() }
}

// VerifFRRSetRefused (C14, histories): the configuration is a function of what was last ACCEPTED on every
// session. A Set refused by validation (an advertisement with more than 63 communities) or by a
// configuration error leaves the session's accepted advertisements untouched: a configuration generated
// afterwards (for any reason) still offers the neighbor what the last accepted Set requested.
func VerifFRRSetRefused() {
	sess := vhSessions(2, 2, 0)
	sm := vhManager(sess, false)
	var s0 *session
	for _, s := range sm.sessions {
		if s.PeerAddress == sess[0].params.PeerAddress {
			s0 = s
		}
	}
	vr.Assert(s0 != nil, "session not found")
	vr.Assert(s0.Set(sess[0].advs...) == nil, "an acceptable Set was refused")
	before, err := sm.createConfig()
	vr.Assert(err == nil, "createConfig failed")
	// a Set that must be refused: a valid advertisement followed by one with 64 communities
	bad := &bgp.Advertisement{Prefix: sess[0].advs[0].Prefix, LocalPref: sess[0].advs[0].LocalPref}
	for i := 0; i < 64; i++ {
		bad.Communities = append(bad.Communities, vhC1)
	}
	pos := vr.Choose(2)
	list := []*bgp.Advertisement{sess[0].advs[1], bad}
	if pos == 0 {
		list = []*bgp.Advertisement{bad, sess[0].advs[1]}
	}
	vr.Assert(s0.Set(list...) != nil, "an advertisement with 64 communities was accepted")
	after, err := sm.createConfig()
	vr.Assert(vhAll(err == nil, reflect.DeepEqual(before, after)), "a refused Set changed what the session advertises")
	vr.Reach("refused Set left the session untouched")
}
