//go:build verif

package frr

import (
	"testing"

	vr "go.universe.tf/metallb/internal/verifrt"
)

func TestVerifReplay(t *testing.T) { vr.RunReplay(t, verifHarnesses) }
