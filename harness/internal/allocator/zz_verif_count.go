//go:build verif

package allocator

import (
	"math"
	"net"

	"go.universe.tf/metallb/internal/config"
	vr "go.universe.tf/metallb/internal/verifrt"
)

var verifHarnesses = map[string]func(a []int){
	"VerifPoolCount": func(a []int) { VerifPoolCount(a[0], a[1], a[2]) },
}

var vhV4Lens = []int{8, 16, 23, 24, 25, 26, 30, 31, 32}
var vhV6Lens = []int{0, 48, 64, 65, 66, 67, 68, 96, 120, 124, 127, 128}
var vhV6Big = []int{64, 66, 67, 68, 120}

// vhMask builds a mask of the given length bit by bit (not with net.CIDRMask, so the oracle below is
// independent of it).
func vhMask(ones, bits int) net.IPMask {
	m := make(net.IPMask, bits/8)
	for i := 0; i < ones; i++ {
		m[i/8] |= 0x80 >> uint(i%8)
	}
	return m
}

func vhSatAdd(a, b int64) int64 {
	if a > math.MaxInt64-b {
		return math.MaxInt64
	}
	return a + b
}

// VerifPoolCount: pool of n CIDRs; fam bit i selects IPv6 for CIDR i; menu selects the set of prefix
// lengths the CIDRs draw from (0 = broad menus, 1 = IPv6 lengths around the saturation threshold).
// Base addresses and the buggy-address flag are symbolic.
func VerifPoolCount(n, fam, menu int) {
	p := &config.Pool{Name: "p", AvoidBuggyIPs: vr.Bool()}
	var want4, want6 int64
	for i := 0; i < n; i++ {
		v6 := fam&(1<<uint(i)) != 0
		var ones, bits int
		var ip net.IP
		if v6 {
			bits = 128
			if menu == 1 {
				ones = vhV6Big[vr.Choose(len(vhV6Big))]
			} else {
				ones = vhV6Lens[vr.Choose(len(vhV6Lens))]
			}
			ip = make(net.IP, 16)
			ip[0] = 0xfd
			for j := 1; j < 16; j++ {
				ip[j] = vr.Byte()
			}
		} else {
			bits = 32
			ones = vhV4Lens[vr.Choose(len(vhV4Lens))]
			ip = net.IP{vr.Byte(), vr.Byte(), vr.Byte(), vr.Byte()}
		}
		m := vhMask(ones, bits)
		base := make(net.IP, len(ip))
		for j := range ip {
			base[j] = ip[j] & m[j]
		}
		p.CIDR = append(p.CIDR, &net.IPNet{IP: base, Mask: m})
		// oracle: usable addresses of this CIDR, saturating
		host := bits - ones
		var usable int64
		if host >= 62 {
			usable = math.MaxInt64
		} else {
			usable = int64(1) << uint(host)
			if p.AvoidBuggyIPs && !v6 {
				if ones <= 24 {
					usable -= 2 * (int64(1) << uint(24-ones))
				} else {
					lowFirst := base[3]
					lowLast := base[3] | ^m[3]
					usable -= int64(vr.IteInt(lowFirst == 0, 1, 0))
					usable -= int64(vr.IteInt(lowLast == 255, 1, 0))
				}
			}
		}
		if v6 {
			want6 = vhSatAdd(want6, usable)
		} else {
			want4 = vhSatAdd(want4, usable)
		}
	}
	wantTotal := vhSatAdd(want4, want6)
	if want6 == math.MaxInt64 && n >= 2 && fam != 0 {
		// classify: a saturated IPv6 prefix combined with further prefixes
		vr.Note("saturated v6 combined with other prefixes")
	}
	total, v4, v6 := poolCount(p)
	vr.Assert(total >= 0 && v4 >= 0 && v6 >= 0, "a reported pool size is negative")
	vr.Assert(v4 == want4, "IPv4 usable-address count")
	vr.Assert(v6 == want6, "IPv6 usable-address count (saturating)")
	vr.Assert(total == wantTotal, "total usable-address count (saturating)")

	// the counters a fresh allocator reports for this pool
	a := New(func(string) {})
	a.SetPools(&config.Pools{ByName: map[string]*config.Pool{"p": p}})
	c := a.CountersForPool("p")
	vr.Assert(c.AssignedIPv4 == 0 && c.AssignedIPv6 == 0, "fresh allocator reports assigned addresses")
	vr.Assert(c.AvailableIPv4 == want4 && c.AvailableIPv6 == want6, "assigned + available must equal the usable count")
	vr.Reach("pool counted")
}
