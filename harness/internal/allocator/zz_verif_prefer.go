//go:build verif

package allocator

import (
	"net"

	"go.universe.tf/metallb/internal/config"
	"go.universe.tf/metallb/internal/ipfamily"
	vr "go.universe.tf/metallb/internal/verifrt"
	v1 "k8s.io/api/core/v1"
	metav1 "k8s.io/apimachinery/pkg/apis/meta/v1"
	"k8s.io/apimachinery/pkg/util/sets"
)

func init() {
	verifHarnesses["VerifPreferFallback"] = func(a []int) { VerifPreferFallback(a[0]) }
}

// VerifPreferFallback (C02, pool order for PreferDualStack): a dual-stack PreferDualStack Service in ns0,
// npools (2..3) single-family pools pinned to ns0 with symbolic priorities (0..2) and symbolic occupancy
// (the pool's only address may be taken), the last pool optionally IPv6, and an unpinned dual-stack pool.
// No pinned pool can give both families, so the Service gets one address: it must come from the
// best-ranked pinned pool (ascending priority number, 0 last) among those offering that family, and from
// the unpinned pool only if no pinned pool offers anything.
func VerifPreferFallback(npools int) {
	ps := &config.Pools{ByName: map[string]*config.Pool{}, ByNamespace: map[string][]string{}}
	type pinfo struct {
		name string
		prio int
		free bool
		v6   bool
	}
	var pin []*pinfo
	a := New(func(string) {})
	for i := 0; i < npools; i++ {
		p := &pinfo{name: []string{"p0", "p1", "p2"}[i], prio: vr.Int(0, 2), free: vr.Bool()}
		cidr := &net.IPNet{IP: net.IP{10, 0, byte(i), 0}, Mask: net.CIDRMask(32, 32)}
		if i == npools-1 && vr.Bool() {
			p.v6 = true
			ip := net.ParseIP("fd00::")
			ip[7] = byte(i)
			cidr = &net.IPNet{IP: ip, Mask: net.CIDRMask(128, 128)}
		}
		ps.ByName[p.name] = &config.Pool{Name: p.name, CIDR: []*net.IPNet{cidr}, AutoAssign: true,
			ServiceAllocations: &config.ServiceAllocation{Priority: p.prio, Namespaces: sets.New("ns0")}}
		ps.ByNamespace["ns0"] = append(ps.ByNamespace["ns0"], p.name)
		pin = append(pin, p)
	}
	_, u4, _ := net.ParseCIDR("10.0.9.0/32")
	_, u6, _ := net.ParseCIDR("fd00:9::/128")
	ps.ByName["open"] = &config.Pool{Name: "open", CIDR: []*net.IPNet{u4, u6}, AutoAssign: true}
	a.SetPools(ps)
	other := &v1.Service{ObjectMeta: metav1.ObjectMeta{Namespace: "ns0", Name: "other"}}
	for i, p := range pin {
		if !p.free {
			ip := ps.ByName[p.name].CIDR[0].IP
			vr.Assume(a.Assign("ns0/other"+string(rune('0'+i)), other, []net.IP{ip}, []Port{{Proto: "TCP", Port: 80}}, "", "") == nil)
		}
	}
	pol := v1.IPFamilyPolicyPreferDualStack
	svc := &v1.Service{ObjectMeta: metav1.ObjectMeta{Namespace: "ns0", Name: "svc"}, Spec: v1.ServiceSpec{IPFamilyPolicy: &pol}}
	if vr.Bool() {
		svc.Spec.IPFamilies = []v1.IPFamily{v1.IPv6Protocol, v1.IPv4Protocol}
	}
	got, err := a.Allocate("ns0/svc", svc, ipfamily.DualStack, []Port{{Proto: "TCP", Port: 80}}, "", "")
	anyPinned := false
	for _, p := range pin {
		anyPinned = anyPinned || p.free
	}
	vr.Assert(err == nil, "allocation failed although the unpinned pool is free")
	if err != nil {
		return
	}
	chosen := a.Pool("ns0/svc")
	if !anyPinned {
		vr.Assert(chosen == "open" && len(got) == 2, "no pinned pool offers an address: the unpinned dual-stack pool must serve both families")
		vr.Reach("unpinned pool used")
		return
	}
	vr.Assert(chosen != "open", "an unpinned pool was used although a pool pinned to the Service offers an address")
	vr.Assert(len(got) == 1, "a single-family pool gave two addresses")
	rank := func(p *pinfo) int {
		if p.prio > 0 {
			return p.prio
		}
		return 1000
	}
	gotV6 := got[0].To4() == nil
	for _, p := range pin {
		if p.name == chosen {
			vr.Assert(p.free, "an occupied address was handed out")
			for _, q := range pin {
				if q != p && q.free && q.v6 == gotV6 && rank(q) < rank(p) {
					vr.Assert(false, "a pinned pool with a better priority, offering the same family, was skipped")
				}
			}
		}
	}
	vr.Reach("pinned pool chosen")
}
