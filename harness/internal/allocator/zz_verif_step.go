//go:build verif

package allocator

import (
	"net"

	"go.universe.tf/metallb/internal/config"
	"go.universe.tf/metallb/internal/ipfamily"
	vr "go.universe.tf/metallb/internal/verifrt"
	v1 "k8s.io/api/core/v1"
	metav1 "k8s.io/apimachinery/pkg/apis/meta/v1"
	"k8s.io/apimachinery/pkg/labels"
	"k8s.io/apimachinery/pkg/util/sets"
)

func init() {
	verifHarnesses["VerifAllocStep"] = func(a []int) { VerifAllocStep(a[0], a[1], a[2], a[3]) }
}

// ---- pool layouts (concrete CIDRs, symbolic flags)

func vhCIDR(s string) *net.IPNet {
	_, n, err := net.ParseCIDR(s)
	if err != nil {
		panic(err)
	}
	return n
}

// vhPoolSpec is the harness' own description of a pool (used by the oracles; never derived from the
// allocator's state).
type vhPoolSpec struct {
	name       string
	cidrs      []*net.IPNet
	avoidBuggy bool
	autoAssign bool
	pinnedNS   string // "" = not pinned to a namespace
	selector   bool   // has a service selector {app: web}
	priority   int
}

func vhLayout(layout int) []*vhPoolSpec {
	switch layout {
	case 0: // a single small v4 pool
		return []*vhPoolSpec{{name: "p0", cidrs: []*net.IPNet{vhCIDR("10.0.0.0/30")}}}
	case 1: // dual-stack pool + second v4 pool
		return []*vhPoolSpec{
			{name: "p0", cidrs: []*net.IPNet{vhCIDR("10.0.0.0/31"), vhCIDR("fd00::/127")}},
			{name: "p1", cidrs: []*net.IPNet{vhCIDR("10.0.1.0/31")}},
		}
	case 2: // a pool pinned to namespace ns0 and an unpinned one
		return []*vhPoolSpec{
			{name: "p0", cidrs: []*net.IPNet{vhCIDR("10.0.0.0/31")}, pinnedNS: "ns0"},
			{name: "p1", cidrs: []*net.IPNet{vhCIDR("10.0.1.0/31")}},
		}
	case 3: // two pinned pools (namespace and service selector) with priorities, one unpinned
		return []*vhPoolSpec{
			{name: "p0", cidrs: []*net.IPNet{vhCIDR("10.0.0.0/32")}, pinnedNS: "ns0"},
			{name: "p1", cidrs: []*net.IPNet{vhCIDR("10.0.1.0/32")}, selector: true},
			{name: "p2", cidrs: []*net.IPNet{vhCIDR("10.0.2.0/31")}},
		}
	case 5: // three pools pinned to ns0, each with a single family (two IPv4, one IPv6), and an unpinned dual-stack pool
		return []*vhPoolSpec{
			{name: "p0", cidrs: []*net.IPNet{vhCIDR("10.0.0.0/32")}, pinnedNS: "ns0"},
			{name: "p1", cidrs: []*net.IPNet{vhCIDR("10.0.1.0/32")}, pinnedNS: "ns0"},
			{name: "p2", cidrs: []*net.IPNet{vhCIDR("fd00::/127")}, pinnedNS: "ns0"},
			{name: "p3", cidrs: []*net.IPNet{vhCIDR("10.0.2.0/31"), vhCIDR("fd00:2::/127")}},
		}
	case 6: // layout 0's pool under another name (a pool is renamed)
		return []*vhPoolSpec{{name: "q0", cidrs: []*net.IPNet{vhCIDR("10.0.0.0/30")}}}
	case 4: // block on a .255/.0 boundary, for buggy-address avoidance
		return []*vhPoolSpec{{name: "p0", cidrs: []*net.IPNet{vhCIDR("10.0.0.254/31"), vhCIDR("10.0.1.0/31")}}}
	}
	panic("unknown layout")
}

func vhSymFlags(specs []*vhPoolSpec) {
	for _, p := range specs {
		p.avoidBuggy = vr.Bool()
		p.autoAssign = vr.Bool()
		if p.pinnedNS != "" || p.selector {
			p.priority = vr.Int(0, 2)
		}
	}
}

func vhPools(specs []*vhPoolSpec) *config.Pools {
	ps := &config.Pools{ByName: map[string]*config.Pool{}, ByNamespace: map[string][]string{}}
	for _, s := range specs {
		p := &config.Pool{Name: s.name, CIDR: s.cidrs, AvoidBuggyIPs: s.avoidBuggy, AutoAssign: s.autoAssign}
		if s.pinnedNS != "" || s.selector {
			p.ServiceAllocations = &config.ServiceAllocation{Priority: s.priority, Namespaces: sets.New[string]()}
			if s.pinnedNS != "" {
				p.ServiceAllocations.Namespaces.Insert(s.pinnedNS)
				ps.ByNamespace[s.pinnedNS] = append(ps.ByNamespace[s.pinnedNS], s.name)
			}
			if s.selector {
				// two selectors: a service is admitted if it matches either of them
				p.ServiceAllocations.ServiceSelectors = []labels.Selector{labels.SelectorFromSet(labels.Set{"app": "web"}), labels.SelectorFromSet(labels.Set{"tier": "db"})}
				ps.ByServiceSelector = append(ps.ByServiceSelector, s.name)
			}
		}
		ps.ByName[s.name] = p
	}
	return ps
}

// ---- services

type vhSvc struct {
	name    string
	svc     *v1.Service
	held    bool
	ips     []net.IP
	ports   []Port
	sharing string
	backend string
	pool    string // pool recorded by the allocator (read back)
}

var vhSvcNames = []string{"ns0/s0", "ns0/s1", "ns1/s2"}

func vhService(i int) *v1.Service {
	ns := "ns0"
	if i == 2 {
		ns = "ns1"
	}
	s := &v1.Service{ObjectMeta: metav1.ObjectMeta{Namespace: ns, Name: vhSvcNames[i][4:], Labels: map[string]string{}}}
	// labels: fully symbolic for the last service name used by a case, "app" only for the others
	if vr.Bool() {
		s.Labels["app"] = "web"
	}
	if i >= 1 && vr.Bool() {
		s.Labels["tier"] = "db"
	}
	return s
}

// vhSymIPs: one or two addresses drawn from the layout's address space with symbolic low bits.
func vhSymIPs(hasV6 bool) []net.IP {
	ip4 := net.IP{10, 0, vr.Byte() & 3, vr.Byte()}
	if hasV6 {
		switch vr.Choose(3) {
		case 1:
			ip6 := net.ParseIP("fd00::")
			ip6[15] = vr.Byte() & 1
			return []net.IP{ip6}
		case 2:
			ip6 := net.ParseIP("fd00::")
			ip6[15] = vr.Byte() & 1
			return []net.IP{ip4, ip6}
		}
	}
	return []net.IP{ip4}
}

func vhSymPorts(n int) []Port {
	var ps []Port
	for i := 0; i < n; i++ {
		ps = append(ps, Port{Proto: vr.PickString("TCP", "UDP"), Port: vr.Int(80, 81)})
	}
	return ps
}

func vhSymKeys() (string, string) {
	return vr.PickString("", "k1", "k2"), vr.PickString("", "b1")
}

// ---- oracles (written from the property statements)

func vhIPEq(a, b net.IP) bool { return a.Equal(b) }

func vhPortsDisjoint(a, b []Port) bool {
	ok := true
	for _, x := range a {
		for _, y := range b {
			ok = vr.And(ok, vr.Not(vr.And(x.Proto == y.Proto, x.Port == y.Port)))
		}
	}
	return ok
}

// vhMayShare: same non-empty sharing key, disjoint ports, same backend key.
func vhMayShare(a, b *vhSvc) bool {
	return vr.And(vr.And(a.sharing != "", a.sharing == b.sharing), vr.And(vhPortsDisjoint(a.ports, b.ports), a.backend == b.backend))
}

func vhInSpec(p *vhPoolSpec, ip net.IP) bool {
	in := false
	for _, c := range p.cidrs {
		in = vr.Or(in, c.Contains(ip))
	}
	if p.avoidBuggy {
		if ip4 := ip.To4(); ip4 != nil {
			in = vr.And(in, vr.And(ip4[3] != 0, ip4[3] != 255))
		}
	}
	return in
}

// vhValid: exclusivity + pool membership of the recorded assignments.
func vhValid(svcs []*vhSvc, specs []*vhPoolSpec) bool {
	ok := true
	for i, a := range svcs {
		if !a.held {
			continue
		}
		ok = vr.And(ok, len(a.ips) >= 1 && len(a.ips) <= 2)
		if len(a.ips) == 2 {
			ok = vr.And(ok, (a.ips[0].To4() == nil) != (a.ips[1].To4() == nil))
		}
		// every address lies in the recorded pool, which exists
		found := false
		for _, p := range specs {
			if p.name == a.pool {
				found = true
				for _, ip := range a.ips {
					ok = vr.And(ok, vhInSpec(p, ip))
				}
			}
		}
		ok = vr.And(ok, found)
		for j := i + 1; j < len(svcs); j++ {
			b := svcs[j]
			if !b.held {
				continue
			}
			for _, x := range a.ips {
				for _, y := range b.ips {
					ok = vr.And(ok, vr.Implies(vhIPEq(x, y), vhMayShare(a, b)))
				}
			}
		}
	}
	return ok
}

// vhReadBack refreshes the harness records from the allocator's recorded assignments.
func vhReadBack(a *Allocator, svcs []*vhSvc) {
	for _, s := range svcs {
		al := a.allocated[s.name]
		if al == nil {
			s.held, s.ips, s.ports, s.pool = false, nil, nil, ""
			continue
		}
		s.held = true
		s.ips = al.ips
		s.ports = al.ports
		s.sharing, s.backend = al.sharing, al.backend
		s.pool = al.pool
	}
}

// vhRebuild: what a fresh allocator holds after being fed the surviving assignments.
func vhRebuild(pools *config.Pools, svcs []*vhSvc) *Allocator {
	f := New(func(string) {})
	f.SetPools(pools)
	for _, s := range svcs {
		if s.held {
			f.assign(s.name, &alloc{pool: s.pool, ips: s.ips, ports: append([]Port(nil), s.ports...), key: key{sharing: s.sharing, backend: s.backend}})
		}
	}
	return f
}

// vhBookkeepingEqual compares every field of the two allocators except the callback.
func vhBookkeepingEqual(a, f *Allocator) bool {
	ok := vr.SameState(a.allocated, f.allocated)
	ok = vr.And(ok, vr.SameState(a.sharingKeyForIP, f.sharingKeyForIP))
	ok = vr.And(ok, vr.SameState(a.portsInUse, f.portsInUse))
	ok = vr.And(ok, vr.SameState(a.servicesOnIP, f.servicesOnIP))
	ok = vr.And(ok, vr.SameState(a.poolIPsInUse, f.poolIPsInUse))
	ok = vr.And(ok, vr.SameState(a.poolIPV4InUse, f.poolIPV4InUse))
	ok = vr.And(ok, vr.SameState(a.poolIPV6InUse, f.poolIPV6InUse))
	ok = vr.And(ok, vr.SameState(a.poolToCounters, f.poolToCounters))
	return ok
}

// vhCounters: reported assigned counts = distinct addresses of that family in use in the pool;
// nothing negative.
func vhCounters(a *Allocator, svcs []*vhSvc, specs []*vhPoolSpec) bool {
	ok := true
	for _, p := range specs {
		var seen []net.IP
		n4, n6 := 0, 0
		for _, s := range svcs {
			if !s.held || s.pool != p.name {
				continue
			}
			for _, ip := range s.ips {
				dup := false
				for _, o := range seen {
					dup = vr.Or(dup, vhIPEq(o, ip))
				}
				seen = append(seen, ip)
				if ip.To4() != nil {
					n4 = vr.IteInt(dup, n4, n4+1)
				} else {
					n6 = vr.IteInt(dup, n6, n6+1)
				}
			}
		}
		c := a.CountersForPool(p.name)
		ok = vr.And(ok, vr.And(c.AssignedIPv4 == int64(n4), c.AssignedIPv6 == int64(n6)))
		ok = vr.And(ok, vr.And(c.AvailableIPv4 >= 0, c.AvailableIPv6 >= 0))
		tot, t4, t6 := poolCount(a.pools.ByName[p.name])
		_ = tot
		ok = vr.And(ok, vr.And(c.AssignedIPv4+c.AvailableIPv4 == t4, c.AssignedIPv6+c.AvailableIPv6 == t6))
	}
	return ok
}

const (
	vhOpAssign = iota
	vhOpUnassign
	vhOpAllocate
	vhOpAllocateFromPool
	vhOpAdditionalFamily
	vhOpSetPools
)

// VerifAllocStep: one allocator operation from an arbitrary valid state (C01, C02, C11).
// layout: pool menu index; nsvc: number of services; op: operation kind; lite=1 restricts the
// pre-state to single IPv4 holdings and fixes the acting service to the last one (smaller case split).
func VerifAllocStep(layout, nsvc, op, lite int) {
	specs := vhLayout(layout)
	vhSymFlags(specs)
	pools := vhPools(specs)
	hasV6 := layout == 1 || layout == 5
	a := New(func(string) {})
	a.SetPools(pools)

	// arbitrary valid pre-state, produced by the real Assign (assumed to succeed)
	var svcs []*vhSvc
	for i := 0; i < nsvc; i++ {
		s := &vhSvc{name: vhSvcNames[i], svc: vhService(i)}
		if vr.Bool() {
			ips := vhSymIPs(hasV6 && lite == 0)
			ports := vhSymPorts(1)
			sk, bk := vhSymKeys()
			vr.Assume(a.Assign(s.name, s.svc, ips, ports, sk, bk) == nil)
		}
		svcs = append(svcs, s)
	}
	vhReadBack(a, svcs)
	vr.Assert(vhValid(svcs, specs), "pre-state produced by successful Assign calls is not valid")
	vr.Reach("pre-state built")

	// the step
	actor := nsvc - 1
	if lite == 0 {
		actor = vr.Choose(nsvc)
	}
	act := svcs[actor]
	before := vhRebuild(pools, svcs)
	pre := vhCopy(svcs)
	wasHeld := act.held
	var oldIPs []net.IP
	oldIPs = append(oldIPs, act.ips...)
	var err error
	var got []net.IP
	switch op {
	case vhOpAssign:
		ips := vhSymIPs(hasV6)
		nports := 1
		if lite == 0 {
			nports = 1 + vr.Choose(2)
		}
		ports := vhSymPorts(nports)
		sk, bk := vhSymKeys()
		err = a.Assign(act.name, act.svc, ips, ports, sk, bk)
		if err == nil {
			got = ips
			// C02: explicit request honoured exactly
			now := a.IPs(act.name)
			vr.Assert(len(now) == len(ips), "Assign recorded a different number of addresses")
			for i := range ips {
				vr.Assert(vhIPEq(now[i], ips[i]), "Assign recorded a different address than requested")
			}
		}
	case vhOpUnassign:
		a.Unassign(act.name)
		vr.Assert(a.IPs(act.name) == nil && a.Pool(act.name) == "", "Unassign left an assignment behind")
	case vhOpAllocate, vhOpAllocateFromPool:
		fam := ipfamily.IPv4
		if hasV6 {
			switch vr.Choose(3) {
			case 1:
				fam = ipfamily.IPv6
			case 2:
				fam = ipfamily.DualStack
				pol := v1.IPFamilyPolicyRequireDualStack
				if vr.Bool() {
					pol = v1.IPFamilyPolicyPreferDualStack
				}
				act.svc.Spec.IPFamilyPolicy = &pol
			}
		}
		ports := vhSymPorts(1)
		sk, bk := vhSymKeys()
		if op == vhOpAllocate {
			got, err = a.Allocate(act.name, act.svc, fam, ports, sk, bk)
		} else {
			pn := specs[vr.Choose(len(specs))].name
			got, err = a.AllocateFromPool(act.name, act.svc, fam, pn, ports, sk, bk)
			if err == nil && !wasHeld {
				vr.Assert(a.Pool(act.name) == pn, "AllocateFromPool used another pool than the requested one")
			}
		}
		if err == nil {
			vhCheckAllocated(a, act, got, fam, specs, wasHeld, op == vhOpAllocate)
			if op == vhOpAllocate && !wasHeld {
				vhCheckPoolOrder(pre, actor, &vhSvc{name: act.name, svc: act.svc, ports: ports, sharing: sk, backend: bk}, fam, specs, a.Pool(act.name), len(got), len(got) > 0 && got[0].To4() != nil)
			}
		} else if op == vhOpAllocate && !wasHeld {
			// allocation may fail only if no admissible pool offers an address
			for _, p := range specs {
				n := vhOffers(pre, actor, &vhSvc{name: act.name, svc: act.svc, ports: ports, sharing: sk, backend: bk}, fam, p)
				vr.Assert(n == 0, "allocation failed although an admissible pool offers a suitable address")
			}
			vr.Reach("allocation refused: nothing admissible")
		}
	case vhOpAdditionalFamily:
		vr.Assume(wasHeld && len(act.ips) == 1)
		ports := act.ports
		var ip net.IP
		ip, err = a.AllocateFromPoolForAdditionalFamily(act.name, act.svc, act.ips[0], act.pool, ports, act.sharing, act.backend)
		if err == nil {
			now := a.IPs(act.name)
			vr.Assert(len(now) == 2 && vhIPEq(now[0], oldIPs[0]) && vhIPEq(now[1], ip), "additional-family allocation must keep the held address and add one")
			vr.Assert((now[0].To4() == nil) != (now[1].To4() == nil), "additional address is of the same family")
			vr.Assert(a.Pool(act.name) == act.pool, "additional address from another pool")
		}
	case vhOpSetPools:
		specs = vhLayout([]int{0, 1, 2, 6}[vr.Choose(4)])
		vhSymFlags(specs)
		pools = vhPools(specs)
		a.SetPools(pools)
		// C03: an assignment whose addresses all lie in one pool of the new configuration survives the
		// change untouched (addresses, ports, sharing and backend keys), under whatever name the pool has now
		for _, s := range pre {
			if !s.held {
				continue
			}
			survives := false
			for _, sp := range specs {
				all := true
				for _, ip := range s.ips {
					all = vr.And(all, vhInSpec(sp, ip))
				}
				survives = vr.Or(survives, all)
			}
			al := a.allocated[s.name]
			if survives {
				vr.Assert(al != nil, "a pool change dropped an assignment whose addresses are still inside a pool")
				if al == nil {
					continue
				}
				same := vr.And(len(al.ips) == len(s.ips), len(al.ports) == len(s.ports))
				if same {
					for i := range s.ips {
						same = vr.And(same, vhIPEq(al.ips[i], s.ips[i]))
					}
					for i := range s.ports {
						same = vr.And(same, al.ports[i] == s.ports[i])
					}
				}
				same = vr.And(same, vr.And(al.sharing == s.sharing, al.backend == s.backend))
				vr.Assert(same, "a pool change altered a surviving assignment (addresses, ports or sharing/backend key)")
				vr.Reach("assignment survived a pool change")
			} else {
				vr.Assert(al == nil, "a pool change kept an assignment whose addresses are outside every pool")
			}
		}
	}
	failed := err != nil
	vhReadBack(a, svcs)
	if failed {
		vr.Reach("operation failed")
		// a refused operation must leave everything as it was
		vr.Assert(vhBookkeepingEqual(a, before), "a refused operation changed the allocator's state")
	} else {
		vr.Reach("operation succeeded")
	}
	vr.Assert(vhValid(svcs, specs), "exclusivity / pool membership violated after the operation")
	vr.Assert(vhBookkeepingEqual(a, vhRebuild(pools, svcs)), "allocator bookkeeping differs from a rebuild from the surviving assignments")
	vr.Assert(vhCounters(a, svcs, specs), "pool counters are not exact")

	// C11: an address given up by the actor and held by nobody else is immediately reusable
	if !failed && wasHeld && (op == vhOpUnassign || op == vhOpAssign) {
		for _, ip := range oldIPs {
			free := true
			for _, s := range svcs {
				for _, o := range s.ips {
					free = vr.And(free, vr.Not(vhIPEq(o, ip)))
				}
			}
			stillPool := false
			for _, p := range specs {
				stillPool = vr.Or(stillPool, vhInSpec(p, ip))
			}
			if free && stillPool {
				probe := &v1.Service{ObjectMeta: metav1.ObjectMeta{Namespace: "ns0", Name: "probe", Labels: map[string]string{"app": "web"}}}
				perr := a.Assign("ns0/probe", probe, []net.IP{ip}, []Port{{Proto: "TCP", Port: 80}}, "", "")
				if perr != nil {
					// the only legitimate refusal: the owning pool does not admit the probe service
					p := poolFor(pools.ByName, []net.IP{ip})
					vr.Assert(p != nil && !a.isPoolCompatibleWithService(p, probe), "a released address is not reusable")
				}
				vr.Reach("released address probed")
				a.Unassign("ns0/probe")
			}
		}
	}
}

// vhCheckAllocated: C02 on the result of an automatic allocation.
func vhCheckAllocated(a *Allocator, act *vhSvc, got []net.IP, fam ipfamily.Family, specs []*vhPoolSpec, wasHeld, auto bool) {
	pn := a.Pool(act.name)
	var spec *vhPoolSpec
	for _, p := range specs {
		if p.name == pn {
			spec = p
		}
	}
	vr.Assert(spec != nil, "allocation recorded a pool that is not configured")
	if spec == nil {
		return
	}
	now := a.IPs(act.name)
	vr.Assert(len(now) == len(got), "returned and recorded addresses differ")
	for i := range got {
		vr.Assert(vhIPEq(now[i], got[i]), "returned and recorded addresses differ")
		vr.Assert(vhInSpec(spec, got[i]), "allocated address outside the recorded pool or a buggy address of an avoiding pool")
	}
	if wasHeld {
		return // re-validation of an existing assignment, not a fresh choice
	}
	// family rule
	switch fam {
	case ipfamily.IPv4:
		vr.Assert(len(got) == 1 && got[0].To4() != nil, "IPv4 service did not get exactly one IPv4 address")
	case ipfamily.IPv6:
		vr.Assert(len(got) == 1 && got[0].To4() == nil, "IPv6 service did not get exactly one IPv6 address")
	case ipfamily.DualStack:
		if *act.svc.Spec.IPFamilyPolicy == v1.IPFamilyPolicyRequireDualStack {
			vr.Assert(len(got) == 2, "RequireDualStack service did not get two addresses")
		} else {
			vr.Assert(len(got) >= 1 && len(got) <= 2, "PreferDualStack service must get one or two addresses")
		}
		if len(got) == 2 {
			vr.Assert((got[0].To4() == nil) != (got[1].To4() == nil), "dual-stack pair of one family")
		}
	}
	// the pool admits the service
	admits := func(p *vhPoolSpec) bool {
		if p.pinnedNS != "" && p.pinnedNS != act.svc.Namespace {
			return false
		}
		if p.selector {
			return act.svc.Labels["app"] == "web" || act.svc.Labels["tier"] == "db"
		}
		return true
	}
	vr.Assert(admits(spec), "allocated from a pool whose namespace/service selectors do not admit the service")
	if !auto {
		return
	}
	vr.Assert(spec.autoAssign, "automatic allocation drew from a pool with auto-assignment disabled")
	vr.Reach("automatic allocation checked")
}

func vhCopy(svcs []*vhSvc) []*vhSvc {
	var out []*vhSvc
	for _, s := range svcs {
		c := *s
		out = append(out, &c)
	}
	return out
}

func vhAdmits(p *vhPoolSpec, svc *v1.Service) bool {
	if p.pinnedNS != "" && p.pinnedNS != svc.Namespace {
		return false
	}
	if p.selector {
		return svc.Labels["app"] == "web" || svc.Labels["tier"] == "db"
	}
	return true
}

// vhUsable: addr of pool p can be given to the (not yet allocated) service cand, given the other services.
func vhUsable(pre []*vhSvc, actor int, cand *vhSvc, p *vhPoolSpec, addr net.IP) bool {
	ok := vhInSpec(p, addr)
	for i, h := range pre {
		if i == actor || !h.held {
			continue
		}
		for _, o := range h.ips {
			ok = vr.And(ok, vr.Implies(vhIPEq(o, addr), vhMayShare(cand, h)))
		}
	}
	return ok
}

// vhOffers: how many families (0, 1 or 2) pool p can serve for cand with family fam; 0 if p is not a
// candidate for automatic allocation (auto-assign off or selectors do not admit the service).
func vhOffers(pre []*vhSvc, actor int, cand *vhSvc, fam ipfamily.Family, p *vhPoolSpec) int {
	has4, has6 := vhOffersFam(pre, actor, cand, p)
	switch fam {
	case ipfamily.IPv4:
		return vr.IteInt(has4, 1, 0)
	case ipfamily.IPv6:
		return vr.IteInt(has6, 1, 0)
	}
	if *cand.svc.Spec.IPFamilyPolicy == v1.IPFamilyPolicyRequireDualStack {
		return vr.IteInt(vr.And(has4, has6), 2, 0)
	}
	return vr.IteInt(vr.And(has4, has6), 2, vr.IteInt(vr.Or(has4, has6), 1, 0))
}

// vhOffersFam: does pool p offer cand a usable IPv4 / IPv6 address by automatic allocation?
func vhOffersFam(pre []*vhSvc, actor int, cand *vhSvc, p *vhPoolSpec) (bool, bool) {
	if !p.autoAssign || !vhAdmits(p, cand.svc) {
		return false, false
	}
	has4, has6 := false, false
	for _, c := range p.cidrs {
		ones, bits := c.Mask.Size()
		n := 1 << uint(bits-ones)
		for k := 0; k < n; k++ {
			addr := make(net.IP, len(c.IP))
			copy(addr, c.IP)
			addr[len(addr)-1] += byte(k)
			u := vhUsable(pre, actor, cand, p, addr)
			if addr.To4() != nil {
				has4 = vr.Or(has4, u)
			} else {
				has6 = vr.Or(has6, u)
			}
		}
	}
	return has4, has6
}

// vhCheckPoolOrder (C02): pinned pools are tried before unpinned ones, by ascending priority number
// with 0 last. Asserted: the chosen pool is pinned whenever some pinned pool offers; and no pinned
// pool offering at least as many families as were obtained has a strictly smaller rank.
//
// A PreferDualStack Service that no pool can give both families gets one address; the allocator then
// prefers the Service's primary family over pool priority (documented in findBestPoolForService). The
// statement does not say how family preference and priority interact, so in that case only pools offering
// the family that was obtained are compared by priority.
func vhCheckPoolOrder(pre []*vhSvc, actor int, cand *vhSvc, fam ipfamily.Family, specs []*vhPoolSpec, chosen string, obtained int, gotV4 bool) {
	rank := func(p *vhPoolSpec) int {
		if p.priority > 0 {
			return p.priority
		}
		return 1000
	}
	var ch *vhPoolSpec
	for _, p := range specs {
		if p.name == chosen {
			ch = p
		}
	}
	if ch == nil {
		return
	}
	chPinned := ch.pinnedNS != "" || ch.selector
	for _, p := range specs {
		pinned := p.pinnedNS != "" || p.selector
		if !pinned || p == ch {
			continue
		}
		n := vhOffers(pre, actor, cand, fam, p)
		if !chPinned {
			vr.Assert(n == 0, "an unpinned pool was used although a pool pinned to the service offers an address")
		} else {
			if fam == ipfamily.DualStack && obtained == 1 {
				o4, o6 := vhOffersFam(pre, actor, cand, p)
				same := o6
				if gotV4 {
					same = o4
				}
				vr.Assert(vr.Not(vr.And(vr.And(n >= obtained, same), rank(p) < rank(ch))), "a pinned pool with a better priority was skipped")
			} else {
				vr.Assert(vr.Not(vr.And(n >= obtained, rank(p) < rank(ch))), "a pinned pool with a better priority was skipped")
			}
		}
	}
	vr.Reach("pool order checked")
}
