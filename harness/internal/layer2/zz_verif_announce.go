//go:build verif

package layer2

import (
	"io"
	"sync/atomic"
	"net"
	"time"

	"github.com/go-kit/log"
	"github.com/mdlayher/arp"
	"github.com/mdlayher/ethernet"
	vr "go.universe.tf/metallb/internal/verifrt"
	"k8s.io/apimachinery/pkg/types"
	"k8s.io/apimachinery/pkg/util/sets"
)

var verifHarnesses = map[string]func(a []int){
	"VerifAnnounceStep": func(a []int) { VerifAnnounceStep(a[0], a[1]) },
	"VerifARPArbitrary": func(a []int) { VerifARPArbitrary(a[0]) },
	"VerifARPRequest":   func(a []int) { VerifARPRequest() },
	"VerifAnnounceSpam": func(a []int) { VerifAnnounceSpam(a[0]) },
}

// ---- a packet connection that plays the wire: one inbound frame, records outbound frames

type vhWire struct {
	in    [][]byte
	out   [][]byte
	reads int
}

func (w *vhWire) ReadFrom(p []byte) (int, net.Addr, error) {
	w.reads++
	if len(w.in) == 0 {
		return 0, nil, io.EOF
	}
	f := w.in[0]
	w.in = w.in[1:]
	return copy(p, f), nil, nil
}
func (w *vhWire) WriteTo(p []byte, _ net.Addr) (int, error) {
	w.out = append(w.out, append([]byte(nil), p...))
	return len(p), nil
}
func (w *vhWire) Close() error                       { return nil }
func (w *vhWire) LocalAddr() net.Addr                { return nil }
func (w *vhWire) SetDeadline(time.Time) error        { return nil }
func (w *vhWire) SetReadDeadline(time.Time) error    { return nil }
func (w *vhWire) SetWriteDeadline(time.Time) error   { return nil }

var vhMyMAC = net.HardwareAddr{0x02, 0, 0, 0, 0, 0x01}

// vhAnnouncer builds an Announce without its goroutines, with one ARP responder on interface eth0 that
// talks to the returned wire.
func vhAnnouncer() (*Announce, *arpResponder, *vhWire) {
	a := &Announce{
		logger:         log.NewNopLogger(),
		nodeInterfaces: []string{"eth0", "eth1"},
		arps:           map[int]*arpResponder{},
		ndps:           map[int]*ndpResponder{},
		ips:            map[string][]IPAdvertisement{},
		ipRefcnt:       map[string]int{},
		spamCh:         make(chan IPAdvertisement, 1024),
	}
	w := &vhWire{}
	ifi := &net.Interface{Index: 1, Name: "lo", HardwareAddr: vhMyMAC}
	c, err := arp.New(ifi, w)
	if err != nil {
		panic(err)
	}
	r := &arpResponder{logger: log.NewNopLogger(), intf: "eth0", hardwareAddr: vhMyMAC, conn: c, closed: make(chan struct{}), announce: a.shouldAnnounce}
	a.arps[2] = r
	return a, r, w
}

var vhSvcs = []string{"ns/s0", "ns/s1", "ns/s2"}

type vhAdv struct {
	held bool
	ip   net.IP
	all  bool
	eth0 bool
	eth1 bool
}

func vhSymAdvIP() net.IP { return net.IP{10, 0, 0, vr.Byte() & 3} }

func vhSymAdv() (IPAdvertisement, vhAdv) {
	d := vhAdv{held: true, ip: vhSymAdvIP(), all: vr.Bool()}
	// the interface set has two symbolic members, so membership is decided lazily at lookup time
	ifs := sets.New[string]()
	if vr.Bool() {
		// no interface at all (no L2Advertisement selecting this node contributes one)
		return NewIPAdvertisement(d.ip, d.all, ifs), d
	}
	k0 := vr.PickString("eth0", "absent0")
	k1 := vr.PickString("eth1", "absent1")
	ifs.Insert(k0)
	ifs.Insert(k1)
	d.eth0 = k0 == "eth0"
	d.eth1 = k1 == "eth1"
	return NewIPAdvertisement(d.ip, d.all, ifs), d
}

func (d vhAdv) covers(intf string) bool {
	if intf == "eth0" {
		return vr.Or(d.all, d.eth0)
	}
	return vr.Or(d.all, d.eth1)
}

// VerifAnnounceStep: refcount induction (C13). State: nsvc services with up to two advertisements each
// (distinct addresses per service), installed by the real SetBalancer; one step; then the oracle.
// op 0: SetBalancer (new / repeated / changed interface set), op 1: DeleteBalancer.
func VerifAnnounceStep(nsvc, op int) {
	a, r, w := vhAnnouncer()
	// oracle record: per service up to two held advertisements
	rec := make([][]vhAdv, nsvc)
	install := func(i int, adv IPAdvertisement, d vhAdv) {
		a.SetBalancer(vhSvcs[i], adv)
		for k := range rec[i] {
			if rec[i][k].ip.Equal(d.ip) {
				rec[i][k] = d // same address: the advertisement is replaced
				return
			}
		}
		rec[i] = append(rec[i], d)
	}
	for i := 0; i < nsvc; i++ {
		n := vr.Choose(3)
		for k := 0; k < n; k++ {
			adv, d := vhSymAdv()
			if k == 1 {
				vr.Assume(!d.ip.Equal(rec[i][0].ip))
			}
			install(i, adv, d)
		}
	}
	vr.Reach("state built")
	act := vr.Choose(nsvc)
	switch op {
	case 0:
		adv, d := vhSymAdv()
		install(act, adv, d)
	case 1:
		a.DeleteBalancer(vhSvcs[act])
		rec[act] = nil
	}
	// oracle
	holders := func(ip net.IP) int {
		n := 0
		for i := range rec {
			h := false
			for _, d := range rec[i] {
				h = vr.Or(h, d.ip.Equal(ip))
			}
			n = vr.IteInt(h, n+1, n)
		}
		return n
	}
	answer := func(ip net.IP, intf string) bool {
		ok := false
		for i := range rec {
			for _, d := range rec[i] {
				ok = vr.Or(ok, vr.And(d.ip.Equal(ip), d.covers(intf)))
			}
		}
		return ok
	}
	probe := vhSymAdvIP()
	vr.Assert(a.ipRefcnt[probe.String()] == holders(probe), "reference count differs from the number of services holding the address")
	for _, intf := range []string{"eth0", "eth1"} {
		got := a.shouldAnnounce(probe, intf) == dropReasonNone
		vr.Assert(got == answer(probe, intf), "responder decision differs from 'some announced service holds the address on that interface'")
	}
	// unsolicited announcements: silent when nobody holds the address
	w.out = nil
	a.gratuitous(NewIPAdvertisement(probe, true, sets.New[string]()))
	if holders(probe) == 0 {
		vr.Assert(len(w.out) == 0, "unsolicited announcement sent for an address nobody holds")
		vr.Reach("silent for unheld address")
	} else {
		vr.Assert(len(w.out) == 2, "held address must be announced (request + reply form)")
		vr.Reach("announces held address")
	}
	_ = r
}

// vhFrame builds an Ethernet frame around an ARP payload.
func vhFrame(dst, src net.HardwareAddr, payload []byte) []byte {
	f := append([]byte{}, dst...)
	f = append(f, src...)
	f = append(f, 0x08, 0x06)
	return append(f, payload...)
}

// VerifARPArbitrary: an arbitrary frame of L bytes arrives; a reply may only be written if it is an
// ARP request addressed to broadcast or to this node for an address announced on this interface.
func VerifARPArbitrary(L int) {
	a, r, w := vhAnnouncer()
	adv, d := vhSymAdv()
	a.SetBalancer("ns/s0", adv)
	frame := make([]byte, L)
	for i := range frame {
		frame[i] = vr.Byte()
	}
	w.in = [][]byte{frame}
	w.out = nil
	reason := r.processRequest()
	if len(w.out) > 0 {
		vr.Assert(reason == dropReasonNone, "reply written but the request was reported dropped")
		vr.Assert(L >= 14+28, "reply to a frame too short to be an ARP request")
		toMe := true
		bcast := true
		for i := 0; i < 6; i++ {
			toMe = vr.And(toMe, frame[i] == vhMyMAC[i])
			bcast = vr.And(bcast, frame[i] == 0xff)
		}
		vr.Assert(vr.Or(toMe, bcast), "answered a request addressed neither to this node nor to broadcast")
		// locate the ARP payload (no VLAN tag in the accepted shape checked here)
		if frame[12] == 0x08 && frame[13] == 0x06 {
			p := frame[14:]
			vr.Assert(p[6] == 0 && p[7] == 1, "answered an ARP packet that is not a request")
			if p[4] == 6 && p[5] == 4 {
				tip := net.IP(p[24:28])
				vr.Assert(vr.And(tip.Equal(d.ip), d.covers("eth0")), "answered for an address that is not announced on this interface")
				vr.Reach("arbitrary frame answered")
			}
		}
	} else {
		// (a request that passes the filters but whose reply cannot be assembled - e.g. odd hardware
		// address length - is simply not answered; only well-formed requests must be answered, see
		// VerifARPRequest)
		vr.Reach("arbitrary frame ignored")
	}
}

// VerifARPRequest: a well-formed ARP request for an arbitrary address is answered iff the address is
// announced on this interface, and the answer is a correct ARP reply.
func VerifARPRequest() {
	a, r, w := vhAnnouncer()
	adv, d := vhSymAdv()
	held := vr.Bool()
	if held {
		a.SetBalancer("ns/s0", adv)
	}
	reqMAC := net.HardwareAddr{0x02, vr.Byte(), vr.Byte(), vr.Byte(), vr.Byte(), 0x02}
	reqIP := net.IP{10, 0, 0, 200}
	target := vhSymAdvIP()
	op := vr.Uint16()
	pkt, err := arp.NewPacket(arp.Operation(op), reqMAC, reqIP, ethernet.Broadcast, target)
	if err != nil {
		panic(err)
	}
	pb, _ := pkt.MarshalBinary()
	// the Ethernet destination is arbitrary: broadcast, ours, or any other unicast / group address
	dst := net.HardwareAddr{vr.Byte(), vr.Byte(), vr.Byte(), vr.Byte(), vr.Byte(), vr.Byte()}
	toBroadcast, toMe := true, true
	for i := 0; i < 6; i++ {
		toBroadcast = vr.And(toBroadcast, dst[i] == 0xff)
		toMe = vr.And(toMe, dst[i] == vhMyMAC[i])
	}
	w.in = [][]byte{vhFrame(dst, reqMAC, pb)}
	w.out = nil
	r.processRequest()
	want := vr.And(op == 1, vr.And(held, vr.And(target.Equal(d.ip), d.covers("eth0"))))
	want = vr.And(want, vr.Or(toBroadcast, toMe))
	vr.Assert((len(w.out) == 1) == want, "ARP request answered iff the address is announced on the interface (and it is a request to us)")
	if len(w.out) == 1 {
		f := w.out[0]
		vr.Assert(len(f) >= 14+28, "reply frame too short")
		ok := f[12] == 0x08 && f[13] == 0x06
		for i := 0; i < 6; i++ {
			ok = vr.And(ok, vr.And(f[i] == reqMAC[i], f[6+i] == vhMyMAC[i]))
		}
		p := f[14:]
		ok = vr.And(ok, p[6] == 0 && p[7] == 2)
		for i := 0; i < 6; i++ {
			ok = vr.And(ok, vr.And(p[8+i] == vhMyMAC[i], p[18+i] == reqMAC[i]))
		}
		for i := 0; i < 4; i++ {
			ok = vr.And(ok, vr.And(p[14+i] == target[i], p[24+i] == reqIP[i]))
		}
		vr.Assert(ok, "ARP reply malformed (addresses / operation)")
		vr.Reach("request answered")
	} else {
		vr.Reach("request not answered")
	}
}

// VerifNewAnnounce builds an announcer without its goroutines and responders (overlay-only
// constructor for harnesses in other packages); ifs are the local interface names.
func VerifNewAnnounce(ifs []string) *Announce {
	return &Announce{
		logger:         log.NewNopLogger(),
		nodeInterfaces: ifs,
		arps:           map[int]*arpResponder{},
		ndps:           map[int]*ndpResponder{},
		ips:            map[string][]IPAdvertisement{},
		ipRefcnt:       map[string]int{},
		spamCh:         make(chan IPAdvertisement, 4096),
	}
}

// VerifState exposes what the announcer answers for: service -> advertisements, and the reference counts.
func (a *Announce) VerifState() (map[string][]IPAdvertisement, map[string]int) {
	return a.ips, a.ipRefcnt
}

// VerifAnnounceSpam (C20, no deadlock between the handlers and the announcement loop): the real spamLoop
// runs as a goroutine and the queue of pending gratuitous announcements is modelled as always full
// (unbuffered channel: a handler's enqueue completes only when the loop takes the item, exactly what a
// full bounded queue does). n SetBalancer / DeleteBalancer calls for services on distinct addresses run
// while a status fetcher reads; every call must return.
func VerifAnnounceSpam(n int) {
	a := VerifNewAnnounce([]string{"eth0"})
	a.spamCh = make(chan IPAdvertisement)
	go a.spamLoop()
	done := make(chan struct{})
	var stop atomic.Bool
	go func() {
		// the status fetcher: once under the engine (every interleaving is explored), in a loop natively
		for {
			_ = a.GetStatus(types.NamespacedName{Namespace: "ns", Name: "s0"})
			_ = a.AnnounceName("ns/s0")
			if vr.Symbolic() || stop.Load() {
				break
			}
		}
		close(done)
	}()
	names := []string{"ns/s0", "ns/s1", "ns/s2"}
	// Natively the interleaving cannot be chosen: the same calls are repeated many times so that a
	// lock-order problem shows up as a hang of the test binary (which confirms a reported deadlock).
	rounds := 1
	if !vr.Symbolic() {
		rounds = 4000
	}
	for r := 0; r < rounds; r++ {
		for i := 0; i < n; i++ {
			adv := NewIPAdvertisement(net.IP{10, 0, byte(r), byte(i)}, true, sets.New[string]())
			a.SetBalancer(names[i], adv)
			if vr.Bool() {
				a.SetBalancer(names[i], adv) // repeated event for the same service
			}
		}
		if vr.Bool() {
			a.DeleteBalancer(names[0])
		}
	}
	stop.Store(true)
	<-done
	vr.Yield()
	vr.Reach("announcer handlers returned")
}
