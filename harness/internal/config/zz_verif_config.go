//go:build verif

package config

import (
	"net"
	"strconv"

	vr "go.universe.tf/metallb/internal/verifrt"
)

var verifHarnesses = map[string]func(a []int){
	"VerifRangeExact":   func(a []int) { VerifRangeExact(a[0], a[1], a[2]) },
	"VerifRangeMixed":   func(a []int) { VerifRangeMixed() },
	"VerifCIDROverlap":  func(a []int) { VerifCIDROverlap(a[0], a[1]) },
	"VerifAggregation":  func(a []int) { VerifAggregation(a[0]) },
	"VerifLocalPrefClash": func(a []int) { VerifLocalPrefClash(a[0]) },
}

func vhU32(ip net.IP) uint32 {
	ip = ip.To4()
	return uint32(ip[0])<<24 | uint32(ip[1])<<16 | uint32(ip[2])<<8 | uint32(ip[3])
}

// vhLE16 compares two 16-byte addresses as big-endian numbers (a <= b), without forking.
func vhLE16(a, b net.IP) bool {
	le := true // equal so far
	for i := 15; i >= 0; i-- {
		le = vr.IteBool(a[i] == b[i], le, a[i] < b[i])
	}
	return le
}

// VerifRangeExact (C08): an inclusive range "start-end" whose ends share all but the low k bits denotes
// exactly the addresses between them, as pairwise disjoint prefixes. v6 selects the family; spaces
// selects the notation with blanks around the dash.
func VerifRangeExact(v6, k, spaces int) {
	var start, end, probe net.IP
	lowMask := byte(1<<uint(k) - 1)
	if v6 == 0 {
		b2 := vr.Byte()
		base := vr.Byte() &^ lowMask
		start = net.IP{10, 7, b2, base | vr.Byte()&lowMask}
		end = net.IP{10, 7, b2, base | vr.Byte()&lowMask}
		probe = net.IP{10, 7, vr.Byte(), vr.Byte()}
	} else {
		mk := func(b14, b15 byte) net.IP {
			ip := net.ParseIP("fd00:7::")
			ip[14], ip[15] = b14, b15
			return ip
		}
		b14 := vr.Byte()
		base := vr.Byte() &^ lowMask
		start = mk(b14, base|vr.Byte()&lowMask)
		end = mk(b14, base|vr.Byte()&lowMask)
		probe = mk(vr.Byte(), vr.Byte())
	}
	sep := "-"
	if spaces == 1 {
		sep = " - "
	}
	text := start.String() + sep + end.String()
	if spaces == 2 {
		text = " " + text + " "
	}
	nets, err := ParseCIDR(text)
	ordered := vhLE16(start.To16(), end.To16())
	if !ordered {
		vr.Assert(err != nil, "a range whose start is after its end was accepted")
		vr.Reach("reversed range rejected")
		return
	}
	vr.Assert(err == nil, "a well-formed inclusive range was rejected")
	inRange := vr.And(vhLE16(start.To16(), probe.To16()), vhLE16(probe.To16(), end.To16()))
	count := 0
	for _, n := range nets {
		count = vr.IteInt(n.Contains(probe), count+1, count)
		// every emitted prefix is of the range's family
		vr.Assert((n.IP.To4() != nil) == (v6 == 0), "range produced a prefix of another family")
	}
	vr.Assert((count >= 1) == inRange, "the prefixes of a range do not cover exactly the addresses between its ends")
	vr.Assert(count <= 1, "the prefixes of a range overlap")
	vr.Reach("range checked")
}

// VerifRangeMixed (C08): families are not mixed inside a range.
func VerifRangeMixed() {
	v4 := net.IP{10, 7, vr.Byte(), vr.Byte()}
	v6 := net.ParseIP("fd00:7::")
	v6[15] = vr.Byte()
	var text string
	if vr.Bool() {
		text = v4.String() + "-" + v6.String()
	} else {
		text = v6.String() + "-" + v4.String()
	}
	nets, err := ParseCIDR(text)
	if err == nil {
		vr.Finding("F6-mixed-family-range")
	}
	vr.Assert(err != nil, "a range mixing IPv4 and IPv6 ends was accepted")
	_ = nets
	vr.Reach("mixed range rejected")
}

// vhNet parses a prefix written in one of the accepted CIDR notations through the real ParseCIDR:
// rep 0: IPv4 "a.b.c.d/n"; rep 1: IPv6 "x::y/n"; rep 2: IPv4-mapped IPv6 "::ffff:a.b.c.d/n" (n >= 96).
// The written address need not be aligned to the prefix. Returns the parsed network and the address
// set the notation denotes as (16-byte address, prefix length on the 128-bit scale).
func vhNet(rep int) (*net.IPNet, net.IP, int) {
	var text string
	var addr net.IP
	var ones int
	switch rep {
	case 0:
		n := vr.Int(20, 32)
		ip := net.IP{10, 7, vr.Byte(), vr.Byte()}
		text = ip.String() + "/" + strconv.Itoa(n)
		addr, ones = ip.To16(), n+96
	case 1:
		n := vr.Int(116, 128)
		ip := net.ParseIP("fd00:7::")
		ip[14], ip[15] = vr.Byte(), vr.Byte()
		text = ip.String() + "/" + strconv.Itoa(n)
		addr, ones = ip, n
	default:
		n := vr.Int(116, 128)
		ip := net.IP{10, 7, vr.Byte(), vr.Byte()}
		text = "::ffff:" + ip.String() + "/" + strconv.Itoa(n)
		addr, ones = ip.To16(), n
	}
	nets, err := ParseCIDR(text)
	vr.Assert(err == nil && len(nets) == 1, "a well-formed CIDR was rejected")
	return nets[0], addr, ones
}

// vhContains16: does the set (base/len on the 128-bit scale) contain x (16 bytes)?
func vhContains16(base net.IP, ones int, x net.IP) bool {
	ok := true
	for i := 0; i < 16; i++ {
		bits := ones - 8*i
		var m byte
		switch {
		case bits >= 8:
			m = 0xff
		case bits <= 0:
			m = 0
		default:
			m = ^byte(0xff >> uint(bits))
		}
		ok = vr.And(ok, base[i]&m == x[i]&m)
	}
	return ok
}

// VerifCIDROverlap (C08): cidrsOverlap(a,b) iff the two address sets intersect (for prefixes: iff one
// contains the other's base address), in every representation the parser returns.
func VerifCIDROverlap(repA, repB int) {
	a, baseA, onesA := vhNet(repA)
	b, baseB, onesB := vhNet(repB)
	want := vr.Or(vr.And(onesA <= onesB, vhContains16(baseA, onesA, baseB)), vr.And(onesB <= onesA, vhContains16(baseB, onesB, baseA)))
	got := cidrsOverlap(a, b)
	if repA == 2 || repB == 2 {
		vr.Finding("F6-ipv4-mapped-cidr")
	}
	// the parsed prefix length is on the scale of its own family
	oa, ba := a.Mask.Size()
	vr.Assert(oa+(128-ba) == onesA, "parsed prefix length differs from the written one")
	vr.Assert(got == want, "overlap check disagrees with the address sets of the two prefixes")
	// the membership test used by the allocator agrees with the notation, too
	x := net.IP{10, 7, vr.Byte(), vr.Byte()}
	if repA != 1 {
		vr.Assert(a.Contains(x) == vhContains16(baseA, onesA, x.To16()), "IPNet.Contains disagrees with the written prefix")
	}
	if got {
		vr.Reach("overlap")
	} else {
		vr.Reach("disjoint")
	}
}

// vhPoolOf builds a pool written as CIDRs (family bit per entry in fam).
func vhPoolOf(fam int, n int, symLens bool) (*Pool, []int, []bool) {
	p := &Pool{Name: "p", cidrsPerAddresses: map[string][]*net.IPNet{}}
	var lens []int
	var v6s []bool
	names := []string{"a0", "a1"}
	for i := 0; i < n; i++ {
		v6 := fam&(1<<uint(i)) != 0
		var c *net.IPNet
		var ones int
		if v6 {
			ones = 120
			if symLens {
				ones = vr.Int(112, 128)
			}
			ip := net.ParseIP("fd00:7::")
			ip[14], ip[15] = vr.Byte(), vr.Byte()
			m := net.CIDRMask(ones, 128)
			c = &net.IPNet{IP: ip.Mask(m), Mask: m}
		} else {
			ones = 24
			if symLens {
				ones = vr.Int(16, 32)
			}
			ip := net.IP{10, 7, vr.Byte(), vr.Byte()}
			m := net.CIDRMask(ones, 32)
			c = &net.IPNet{IP: ip.Mask(m), Mask: m}
		}
		p.CIDR = append(p.CIDR, c)
		p.cidrsPerAddresses[names[i]] = []*net.IPNet{c}
		lens = append(lens, ones)
		v6s = append(v6s, v6)
	}
	return p, lens, v6s
}

// VerifAggregation (C08): an accepted advertisement never produces an aggregate leaving the pool's CIDR.
func VerifAggregation(fam int) {
	n := 1
	if fam >= 2 {
		n = 2
	}
	p, lens, v6s := vhPoolOf(fam, n, true)
	adv := &BGPAdvertisement{AggregationLength: vr.Int(0, 32), AggregationLengthV6: vr.Int(0, 128), Nodes: map[string]bool{"n0": true}}
	err := validateBGPAdvPerPool(adv, p)
	for i := range lens {
		agg := adv.AggregationLength
		if v6s[i] {
			agg = adv.AggregationLengthV6
		}
		// the aggregate of any pool address stays inside the CIDR iff it is at least as specific
		if err == nil {
			vr.Assert(agg >= lens[i], "accepted an aggregation length shorter than a pool prefix: the aggregate leaves the pool")
		}
	}
	if err == nil {
		vr.Reach("aggregation accepted")
	} else {
		ok := false
		for i := range lens {
			agg := adv.AggregationLength
			if v6s[i] {
				agg = adv.AggregationLengthV6
			}
			ok = vr.Or(ok, agg < lens[i])
		}
		vr.Assert(ok, "rejected an advertisement whose aggregates all stay inside the pool")
		vr.Reach("aggregation rejected")
	}
}

// VerifLocalPrefClash (C08): two advertisements that give the same route different local preferences
// on a common node and peer are rejected; others are accepted.
func VerifLocalPrefClash(fam int) {
	n := 1
	if fam >= 2 {
		n = 2
	}
	p, _, v6s := vhPoolOf(fam, n, false)
	has4, has6 := false, false
	for _, v := range v6s {
		if v {
			has6 = true
		} else {
			has4 = true
		}
	}
	mk := func() (*BGPAdvertisement, []bool) {
		a := &BGPAdvertisement{AggregationLength: 32 - vr.Int(0, 1), AggregationLengthV6: 128 - vr.Int(0, 1), LocalPref: uint32(vr.Int(0, 1)), Nodes: map[string]bool{}}
		nodes := []bool{vr.Bool(), vr.Bool()}
		if nodes[0] {
			a.Nodes["n0"] = true
		}
		if nodes[1] {
			a.Nodes["n1"] = true
		}
		switch vr.Choose(4) {
		case 1:
			a.Peers = []string{"peer0"}
		case 2:
			a.Peers = []string{"peer1"}
		case 3:
			a.Peers = []string{"peer0", "peer1"}
		}
		return a, nodes
	}
	old, oldNodes := mk()
	neu, neuNodes := mk()
	p.BGPAdvertisements = []*BGPAdvertisement{old}
	// aggregation lengths are valid for the pool by construction (/32, /31, /128, /127 >= any prefix? no):
	// keep the pool prefixes at least as short
	err := validateBGPAdvPerPool(neu, p)
	sameRoute := vr.Or(has4 && old.AggregationLength == neu.AggregationLength, has6 && old.AggregationLengthV6 == neu.AggregationLengthV6)
	commonNode := vr.Or(vr.And(oldNodes[0], neuNodes[0]), vr.And(oldNodes[1], neuNodes[1]))
	commonPeer := len(old.Peers) == 0 || len(neu.Peers) == 0
	for _, a := range old.Peers {
		for _, b := range neu.Peers {
			if a == b {
				commonPeer = true
			}
		}
	}
	clash := vr.And(vr.And(old.LocalPref != neu.LocalPref, sameRoute), vr.And(commonNode, commonPeer))
	vr.Assert((err != nil) == clash, "local-preference conflict check disagrees with 'same route, common node and peer, different local preference'")
	if err != nil {
		vr.Reach("clash rejected")
	} else {
		vr.Reach("no clash accepted")
	}
}
