//go:build verif

package config

import (
	vr "go.universe.tf/metallb/internal/verifrt"
	corev1 "k8s.io/api/core/v1"
	metav1 "k8s.io/apimachinery/pkg/apis/meta/v1"
)

func init() {
	verifHarnesses["VerifSelectedNodes"] = func(a []int) { VerifSelectedNodes(a[0]) }
}

// VerifSelectedNodes (C08, node selectors of an advertisement): nsel label selectors (match-labels on the
// keys zone / rack with values from a 2-letter alphabet, chosen symbolically) over 2 nodes with symbolic
// labels: a node is selected iff at least one selector matches all of its labels; no selector selects
// every node.
func VerifSelectedNodes(nsel int) {
	vals := []string{"a", "b"}
	type sel struct {
		zone, rack int // 0 = not constrained, 1/2 = value a/b
	}
	var sels []sel
	var ls []metav1.LabelSelector
	for i := 0; i < nsel; i++ {
		s := sel{vr.Choose(3), vr.Choose(3)}
		m := map[string]string{}
		if s.zone > 0 {
			m["zone"] = vals[s.zone-1]
		}
		if s.rack > 0 {
			m["rack"] = vals[s.rack-1]
		}
		sels = append(sels, s)
		ls = append(ls, metav1.LabelSelector{MatchLabels: m})
	}
	type nl struct{ zone, rack int }
	var nodes []corev1.Node
	var nls []nl
	for i := 0; i < 2; i++ {
		n := nl{vr.Choose(3), vr.Choose(3)}
		lab := map[string]string{}
		if n.zone > 0 {
			lab["zone"] = vals[n.zone-1]
		}
		if n.rack > 0 {
			lab["rack"] = vals[n.rack-1]
		}
		nls = append(nls, n)
		nodes = append(nodes, corev1.Node{ObjectMeta: metav1.ObjectMeta{Name: []string{"n0", "n1", "n2"}[i], Labels: lab}})
	}
	got, err := selectedNodes(nodes, ls)
	vr.Assert(err == nil, "well-formed selectors rejected")
	for i, n := range nls {
		want := nsel == 0
		for _, s := range sels {
			m := (s.zone == 0 || s.zone == n.zone) && (s.rack == 0 || s.rack == n.rack)
			want = want || m
		}
		vr.Assert(got[nodes[i].Name] == want, "an advertisement's node selectors do not select exactly the nodes that match one of them")
	}
	vr.Reach("node selectors checked")
}
