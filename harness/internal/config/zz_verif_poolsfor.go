//go:build verif

package config

import (
	"net"
	"strconv"

	metallbv1beta1 "go.universe.tf/metallb/api/v1beta1"
	vr "go.universe.tf/metallb/internal/verifrt"
	corev1 "k8s.io/api/core/v1"
	metav1 "k8s.io/apimachinery/pkg/apis/meta/v1"
)

func init() {
	verifHarnesses["VerifPoolsFor"] = func(a []int) { VerifPoolsFor(a[0], a[1], a[2]) }
}

// vhWritten is one address entry of a pool as the user wrote it, with the address set it denotes:
// the addresses x (16 bytes) with lo <= x <= hi.
type vhWritten struct {
	text   string
	lo, hi net.IP
}

func vhMaskLoHi(addr net.IP, ones int) (net.IP, net.IP) {
	lo, hi := make(net.IP, 16), make(net.IP, 16)
	for i := 0; i < 16; i++ {
		bits := ones - 8*i
		var m byte
		switch {
		case bits >= 8:
			m = 0xff
		case bits <= 0:
			m = 0
		default:
			m = ^byte(0xff >> uint(bits))
		}
		lo[i], hi[i] = addr[i]&m, addr[i]|^m
	}
	return lo, hi
}

// vhEntry writes one address entry. rep 0: IPv4 CIDR (symbolic /24../32, unaligned address allowed);
// 1: IPv6 CIDR (/120../128); 2: IPv4-mapped IPv6 CIDR (/120../128); 3: IPv4 range inside one /29 block
// (symbolic ends, low 3 bits); 4: IPv4 range with blanks around the dash.
func vhEntry(rep int) vhWritten {
	switch rep {
	case 1:
		n := vr.Int(120, 128)
		ip := net.ParseIP("fd00:7::")
		ip[15] = vr.Byte()
		lo, hi := vhMaskLoHi(ip, n)
		return vhWritten{ip.String() + "/" + strconv.Itoa(n), lo, hi}
	case 2:
		n := vr.Int(120, 128)
		ip := net.IP{10, 7, 0, vr.Byte()}
		lo, hi := vhMaskLoHi(ip.To16(), n)
		return vhWritten{"::ffff:" + ip.String() + "/" + strconv.Itoa(n), lo, hi}
	case 3, 4:
		blk := vr.Byte() &^ 7
		a, b := vr.Byte()&7, vr.Byte()&7
		vr.Assume(a <= b)
		lo, hi := net.IP{10, 7, 0, blk | a}, net.IP{10, 7, 0, blk | b}
		sep := "-"
		if rep == 4 {
			sep = " - "
		}
		return vhWritten{lo.String() + sep + hi.String(), lo.To16(), hi.To16()}
	}
	n := vr.Int(24, 32)
	ip := net.IP{10, 7, 0, vr.Byte()}
	lo, hi := vhMaskLoHi(ip.To16(), n+96)
	return vhWritten{ip.String() + "/" + strconv.Itoa(n), lo, hi}
}

func (w vhWritten) has(x net.IP) bool { return vr.And(vhLE16(w.lo, x), vhLE16(x, w.hi)) }

// VerifPoolsFor (C08): poolsFor as a whole on 2 pools with symbolic address entries, two nodes with
// symbolic internal IPs and one L2 / one BGP advertisement naming a symbolic subset of the pools.
// reps: decimal digits = notation of the entries (pool A: digit 0 [and 2 if present], pool B: digit 1);
// advSel 0..3: pools named by both advertisements {none, [a], [b], [a,b]}; dup: 1 = both pools share a name.
func VerifPoolsFor(reps, advSel, dup int) {
	wA := []vhWritten{vhEntry(reps % 10)}
	wB := []vhWritten{vhEntry(reps / 10 % 10)}
	if reps >= 100 {
		wA = append(wA, vhEntry(reps/100%10))
	}
	mk := func(name string, ws []vhWritten) metallbv1beta1.IPAddressPool {
		p := metallbv1beta1.IPAddressPool{ObjectMeta: metav1.ObjectMeta{Name: name}}
		for _, w := range ws {
			p.Spec.Addresses = append(p.Spec.Addresses, w.text)
		}
		return p
	}
	nameB := "pb"
	if dup == 1 {
		nameB = "pa"
	}
	node4 := net.IP{10, 7, 0, vr.Byte()}
	node6 := net.ParseIP("fd00:7::")
	node6[15] = vr.Byte()
	nodes := []corev1.Node{
		{ObjectMeta: metav1.ObjectMeta{Name: "n1"}, Status: corev1.NodeStatus{Addresses: []corev1.NodeAddress{{Type: corev1.NodeInternalIP, Address: node4.String()}, {Type: corev1.NodeHostName, Address: "n1"}}}},
		{ObjectMeta: metav1.ObjectMeta{Name: "n2"}, Status: corev1.NodeStatus{Addresses: []corev1.NodeAddress{{Type: corev1.NodeInternalIP, Address: node6.String()}}}},
	}
	var named []string
	var poolSel []metav1.LabelSelector
	labA, labB := 0, 0 // pool labels: 0 none, 1 zone=a, 2 zone=b
	if advSel == 4 || advSel == 5 {
		// advSel 4: the advertisements select pools by label (zone=a) and name none; 5: they name pool a
		// and select by label as well (a pool may be both named and selected)
		labA, labB = vr.Choose(3), vr.Choose(3)
		poolSel = []metav1.LabelSelector{{MatchLabels: map[string]string{"zone": "a"}}}
		if advSel == 5 {
			named = []string{"pa"}
		}
	}
	switch advSel {
	case 1:
		named = []string{"pa"}
	case 2:
		named = []string{"pb"}
	case 3:
		named = []string{"pa", "pb"}
	}
	pA, pB := mk("pa", wA), mk(nameB, wB)
	for i, l := range []int{labA, labB} {
		if l > 0 {
			[]*metallbv1beta1.IPAddressPool{&pA, &pB}[i].Labels = map[string]string{"zone": []string{"a", "b"}[l-1]}
		}
	}
	var extraL2 []metallbv1beta1.L2Advertisement
	nodeZone := [2]int{}
	if advSel == 6 {
		// two L2 advertisements on pool a: the first selects the nodes labelled zone=a, the second every
		// node; both must be attached unless they select the same nodes (then they are one advertisement)
		named = []string{"pa"}
		for i := range nodes {
			nodeZone[i] = vr.Choose(2)
			if nodeZone[i] == 1 {
				nodes[i].Labels = map[string]string{"zone": "a"}
			}
		}
		extraL2 = []metallbv1beta1.L2Advertisement{{ObjectMeta: metav1.ObjectMeta{Name: "l0"},
			Spec: metallbv1beta1.L2AdvertisementSpec{IPAddressPools: named, NodeSelectors: []metav1.LabelSelector{{MatchLabels: map[string]string{"zone": "a"}}}}}}
	}
	res := ClusterResources{
		Pools: []metallbv1beta1.IPAddressPool{pA, pB},
		Nodes: nodes,
		L2Advs: []metallbv1beta1.L2Advertisement{{ObjectMeta: metav1.ObjectMeta{Name: "l1"},
			Spec: metallbv1beta1.L2AdvertisementSpec{IPAddressPools: named, IPAddressPoolSelectors: poolSel}}},
		BGPAdvs: []metallbv1beta1.BGPAdvertisement{{ObjectMeta: metav1.ObjectMeta{Name: "b1"},
			Spec: metallbv1beta1.BGPAdvertisementSpec{IPAddressPools: named, IPAddressPoolSelectors: poolSel}}},
	}
	res.L2Advs = append(extraL2, res.L2Advs...)
	pools, err := poolsFor(res)
	if err != nil {
		vr.Reach("rejected")
		return
	}
	vr.Reach("accepted")
	vr.Assert(dup == 0, "two pools with one name were accepted")
	vr.Assert(len(pools.ByName) == 2, "accepted pool catalogue does not list every pool once")
	pa, pb := pools.ByName["pa"], pools.ByName["pb"]
	vr.Assert(vhAll2(pa != nil, pb != nil), "a pool is missing from the catalogue")
	if pa == nil || pb == nil {
		return
	}
	// exact address sets: a probe address is in the pool (real membership test on the parsed CIDRs)
	// iff it is in one of the written entries
	var x net.IP
	if vr.Bool() {
		x = net.IP{10, 7, 0, vr.Byte()}
	} else {
		x = net.ParseIP("fd00:7::")
		x[15] = vr.Byte()
	}
	in := func(p *Pool) bool {
		r := false
		for _, c := range p.CIDR {
			r = vr.Or(r, c.Contains(x))
		}
		return r
	}
	written := func(ws []vhWritten) bool {
		r := false
		for _, w := range ws {
			r = vr.Or(r, w.has(x.To16()))
		}
		return r
	}
	inA, inB := in(pa), in(pb)
	vr.Assert(vhAll2(vr.Iff(inA, written(wA)), vr.Iff(inB, written(wB))), "address set of an accepted pool differs from what was written")
	vr.Assert(vr.Not(vr.And(inA, inB)), "two accepted pools share an address")
	// entries inside one pool are pairwise disjoint, too (Pool.CIDR is documented as non-overlapping)
	cnt := 0
	for _, c := range pa.CIDR {
		cnt = vr.IteInt(c.Contains(x), cnt+1, cnt)
	}
	vr.Assert(cnt <= 1, "an address is covered twice inside one accepted pool")
	// node addresses are outside every pool
	for _, w := range append(append([]vhWritten{}, wA...), wB...) {
		vr.Assert(vr.Not(vr.Or(w.has(node4.To16()), w.has(node6))), "an accepted pool contains a node's internal IP")
	}
	// attachment of the advertisements: exactly the named pools, all pools when none is named
	if advSel == 6 {
		sel := 0
		for _, z := range nodeZone {
			sel += z
		}
		want := 2
		if sel == len(nodes) {
			want = 1 // both advertisements select every node: one and the same advertisement
		}
		vr.Assert(len(pa.L2Advertisements) == want && len(pb.L2Advertisements) == 0, "L2 advertisements with different node selections on one pool are not both attached (or attached to another pool)")
		for _, a := range pa.L2Advertisements {
			vr.Assert(len(a.Nodes) == 2 || len(a.Nodes) == sel, "an L2 advertisement does not carry exactly the nodes its selectors match")
		}
		return
	}
	wantA := advSel == 0 || advSel == 1 || advSel == 3
	wantB := advSel == 0 || advSel == 2 || advSel == 3
	if advSel == 4 || advSel == 5 {
		wantA = labA == 1 || advSel == 5
		wantB = labB == 1
	}
	vr.Assert(vhAll2((len(pa.L2Advertisements) == 1) == wantA, len(pa.L2Advertisements) <= 1, (len(pb.L2Advertisements) == 1) == wantB, len(pb.L2Advertisements) <= 1), "L2 advertisement not attached to exactly the pools it names")
	vr.Assert(vhAll2((len(pa.BGPAdvertisements) == 1) == wantA, len(pa.BGPAdvertisements) <= 1, (len(pb.BGPAdvertisements) == 1) == wantB, len(pb.BGPAdvertisements) <= 1), "BGP advertisement not attached to exactly the pools it names")
	for _, p := range []*Pool{pa, pb} {
		for _, a := range p.L2Advertisements {
			vr.Assert(vhAll2(len(a.Nodes) == 2, a.Nodes["n1"], a.Nodes["n2"]), "an advertisement without node selectors does not cover every node")
		}
		for _, a := range p.BGPAdvertisements {
			vr.Assert(vhAll2(len(a.Nodes) == 2, a.Nodes["n1"], a.Nodes["n2"]), "an advertisement without node selectors does not cover every node")
		}
	}
}

func vhAll2(bs ...bool) bool {
	r := true
	for _, b := range bs {
		r = vr.And(r, b)
	}
	return r
}
