//go:build verif

package main

import (
	"github.com/go-kit/log"
	"go.universe.tf/metallb/internal/allocator/k8salloc"
	"k8s.io/apimachinery/pkg/types"
	ctrl "sigs.k8s.io/controller-runtime"
	vr "go.universe.tf/metallb/internal/verifrt"
	v1 "k8s.io/api/core/v1"
	metav1 "k8s.io/apimachinery/pkg/apis/meta/v1"
)

// vhPortMenu: (protocol, port) sets a Service may expose; one number over two protocols included.
var vhPortMenu = [][]v1.ServicePort{
	{{Protocol: v1.ProtocolTCP, Port: 80}},
	{{Protocol: v1.ProtocolUDP, Port: 80}},
	{{Protocol: v1.ProtocolTCP, Port: 80}, {Protocol: v1.ProtocolUDP, Port: 80}},
	{{Protocol: v1.ProtocolTCP, Port: 81}},
}

func init() {
	verifHarnesses["VerifControllerSharing"] = func(a []int) { VerifControllerSharing(a[0], a[1]) }
}

// VerifControllerSharing (C01 sharing clause through the controller, C07): two Services on a pool with a
// single address. Sharing key, (protocol, port) set, external traffic policy and pod selector of each are symbolic.
// mode 0: the second Service is allocated automatically; 1: it asks for the address explicitly; 2: as 0, then
// the first Service changes its traffic policy / pod selector and the clauses are judged after that event.
// clause 0 (C01): both hold the address only if the statement allows them to share. clause 1 (C07): if the
// statement allows them to share, nobody stays without address.
func VerifControllerSharing(mode, clause int) {
	ps := vhCtlLayout(2) // one pool, 10.0.0.0/32
	api := &vhAPI{objs: map[string]*v1.Service{}, perm: vr.Choose(2)}
	type spec struct {
		name    string
		sharing string
		ports   int // index into the port-set menu
		local   bool
		sel     int // 0 none, 1 app=a, 2 app=b
	}
	var specs []*spec
	for i := 0; i < 2; i++ {
		s := &spec{name: []string{"ns0/s0", "ns0/s1"}[i]}
		if mode == 2 {
			// the event case varies policies and selectors only: same key, disjoint ports
			s.sharing, s.ports = "k", []int{0, 3}[i]
		} else {
			s.sharing = vr.PickString("", "k", "k2")
			s.ports = vr.Choose(len(vhPortMenu))
		}
		s.local = vr.Bool()
		s.sel = vr.Choose(3)
		svc := &v1.Service{ObjectMeta: metav1.ObjectMeta{Namespace: "ns0", Name: s.name[4:], Annotations: map[string]string{}},
			Spec: v1.ServiceSpec{Type: v1.ServiceTypeLoadBalancer, ClusterIP: "10.96.0.7", ClusterIPs: []string{"10.96.0.7"},
				Ports: append([]v1.ServicePort{}, vhPortMenu[s.ports]...), ExternalTrafficPolicy: v1.ServiceExternalTrafficPolicyTypeCluster}}
		if s.local {
			svc.Spec.ExternalTrafficPolicy = v1.ServiceExternalTrafficPolicyTypeLocal
		}
		switch s.sel {
		case 1:
			svc.Spec.Selector = map[string]string{"app": "a"}
		case 2:
			svc.Spec.Selector = map[string]string{"app": "b"}
		}
		if s.sharing != "" {
			svc.Annotations[AnnotationAllowSharedIP] = s.sharing
		}
		if mode == 1 && i == 1 {
			svc.Spec.LoadBalancerIP = "10.0.0.0"
		}
		specs = append(specs, s)
		api.names = append(api.names, s.name)
		api.objs[s.name] = svc
	}
	w := vhStart(api, ps)
	w.c.SetPools(log.NewNopLogger(), vhCtlPools(ps))
	w.reload()
	a, b := specs[0], specs[1]
	if mode == 2 {
		// one event after the first settling: the first Service changes its traffic policy and pod
		// selector (everything else stays); the clauses are judged on the state after the event has
		// settled, including the re-syncs it requested
		a.local = vr.Bool()
		a.sel = vr.Choose(3)
		obj := api.objs[a.name]
		obj.Spec.ExternalTrafficPolicy = v1.ServiceExternalTrafficPolicyTypeCluster
		if a.local {
			obj.Spec.ExternalTrafficPolicy = v1.ServiceExternalTrafficPolicyTypeLocal
		}
		obj.Spec.Selector = nil
		switch a.sel {
		case 1:
			obj.Spec.Selector = map[string]string{"app": "a"}
		case 2:
			obj.Spec.Selector = map[string]string{"app": "b"}
		}
		req := ctrl.Request{NamespacedName: types.NamespacedName{Namespace: "ns0", Name: a.name[4:]}}
		w.settle(&req)
	}
	disjoint := true
	for _, x := range vhPortMenu[a.ports] {
		for _, y := range vhPortMenu[b.ports] {
			if x.Protocol == y.Protocol && x.Port == y.Port {
				disjoint = false
			}
		}
	}
	mayShare := vr.And(vr.And(a.sharing != "", a.sharing == b.sharing), disjoint)
	mayShare = vr.And(mayShare, vr.Or(vr.And(!a.local, !b.local), a.sel == b.sel))
	ha, hb := vhStatusIP(api.objs[a.name]), vhStatusIP(api.objs[b.name])
	both := ha != nil && hb != nil
	if both {
		if clause == 0 {
			vr.Assert(mayShare, "two Services hold one address although they may not share it (sharing key, ports, traffic policy / pod selectors)")
		}
		vr.Reach("address shared")
	} else {
		vr.Assert(ha != nil || hb != nil, "the only address is free although Services wait for one")
		if clause == 1 {
			if a.local != b.local && a.sel == b.sel {
				// one Local and one Cluster Service with identical pod selectors
				vr.Finding("F15-mixed-policy-identical-selectors-not-shared")
			}
			vr.Assert(vr.Not(mayShare), "a Service stays without address although it may share the address the other one holds")
			vr.Finding("")
		}
		vr.Reach("one Service pending")
	}
	for _, s := range specs {
		mem := w.c.ips.IPs(s.name)
		vr.Assert((len(mem) == 1) == (vhStatusIP(api.objs[s.name]) != nil), "controller memory differs from the Service status")
	}
}

func init() {
	verifHarnesses["VerifBackendKey"] = func(a []int) { VerifBackendKey() }
}

// VerifBackendKey (C01 / C03): the backend key that decides whether two Services may share an address is a
// function of the traffic policy and the pod selector alone: computing it again for the same Service,
// under any map iteration order, gives the same key (otherwise a re-sync refuses an address the Service
// validly shares), and two Local Services with identical selectors get equal keys. (How keys of different
// Services relate otherwise is the sharing harness' business, which observes behaviour.)
func VerifBackendKey() {
	mk := func(local bool, sel int) *v1.Service {
		s := &v1.Service{Spec: v1.ServiceSpec{ExternalTrafficPolicy: v1.ServiceExternalTrafficPolicyTypeCluster}}
		if local {
			s.Spec.ExternalTrafficPolicy = v1.ServiceExternalTrafficPolicyTypeLocal
		}
		switch sel {
		case 1:
			s.Spec.Selector = map[string]string{"app": "a"}
		case 2:
			s.Spec.Selector = map[string]string{"app": "a", "tier": "x"}
		case 3:
			s.Spec.Selector = map[string]string{"tier": "x", "app": "a"} // same selector, other insertion order
		case 4:
			s.Spec.Selector = map[string]string{"app": "a", "tier": "y"}
		}
		return s
	}
	la, lb := vr.Bool(), vr.Bool()
	sa, sb := vr.Choose(5), vr.Choose(5)
	a, b := mk(la, sa), mk(lb, sb)
	ka := k8salloc.BackendKey(a)
	vr.MapOrder(vr.OrderRotate)
	ka2, kb := k8salloc.BackendKey(a), k8salloc.BackendKey(b)
	vr.MapOrder(vr.OrderInsertion)
	vr.Assert(ka == ka2, "the backend key of one Service differs between two computations")
	same := sa == sb || (sa == 2 && sb == 3) || (sa == 3 && sb == 2)
	if la && lb && same {
		vr.Assert(ka == kb, "two Local Services with identical pod selectors get different backend keys (they could not share an address)")
	}
	vr.Reach("backend keys compared")
}
