//go:build verif

package main

import (
	"sync"

	"github.com/go-kit/log"
	"go.universe.tf/metallb/internal/allocator"
	"go.universe.tf/metallb/internal/config"
	"go.universe.tf/metallb/internal/k8s"
	"go.universe.tf/metallb/internal/k8s/controllers"
	vr "go.universe.tf/metallb/internal/verifrt"
	v1 "k8s.io/api/core/v1"
	discovery "k8s.io/api/discovery/v1"
)

func init() {
	verifHarnesses["VerifControllerHandlers"] = func(a []int) { VerifControllerHandlers(a[0]) }
}

func vhCtlInstance(api *vhAPI) *controller {
	return &controller{client: api, ips: allocator.New(func(string) {})}
}

// VerifControllerHandlers (C20): a service event and a pool event are delivered concurrently through
// the Listener wrappers while the pool-status fetcher reads the counters: no data race, no crash, and
// the allocator ends in the state of one of the serial orders.
// scn 0: the pool event removes the pool a service holds an address from; 1: it only adds a pool.
func VerifControllerHandlers(scn int) {
	two := []vhPool{{name: "p0", cidr: "10.0.0.0/31"}, {name: "p1", cidr: "10.0.1.0/31"}}
	one := []vhPool{{name: "p0", cidr: "10.0.0.0/31"}}
	specs := []*vhSpec{{name: "ns0/s0", lb: true, port: 80}, {name: "ns0/s1", lb: true, port: 80, reqPool: "p1"}}
	build := func() (*controller, *vhAPI) {
		api := &vhAPI{objs: map[string]*v1.Service{}}
		for _, s := range specs {
			api.names = append(api.names, s.name)
			api.objs[s.name] = vhBuildService(s)
		}
		c := vhCtlInstance(api)
		start := two
		if scn == 1 {
			start = one
		}
		c.SetPools(log.NewNopLogger(), vhCtlPools(start))
		for _, s := range specs {
			c.SetBalancer(log.NewNopLogger(), s.name, api.objs[s.name].DeepCopy(), nil)
		}
		return c, api
	}
	c, api := build()
	var order []string
	var omu sync.Mutex
	note := func(s string) { omu.Lock(); order = append(order, s); omu.Unlock() }
	lst := &k8s.Listener{
		ServiceChanged: func(l log.Logger, n string, s *v1.Service, e []discovery.EndpointSlice) controllers.SyncState {
			note("svc")
			return c.SetBalancer(l, n, s, e)
		},
		PoolChanged: func(l log.Logger, p *config.Pools) controllers.SyncState { note("pool"); return c.SetPools(l, p) },
	}
	newPools := one
	if scn == 1 {
		newPools = two
	}
	lg := log.NewNopLogger()
	// the service event: s0 is deleted
	evSvc := func() { lst.ServiceHandler(lg, "ns0/s0", nil, nil) }
	evPool := func() { lst.PoolHandler(lg, vhCtlPools(newPools)) }
	vr.Track(c.ips)
	done := 0
	var dmu sync.Mutex
	fin := func() { dmu.Lock(); done++; dmu.Unlock() }
	var seen []allocator.PoolCounters
	go func() { evSvc(); fin() }()
	go func() { evPool(); fin() }()
	go func() {
		seen = append(seen, c.ips.CountersForPool("p0"), c.ips.CountersForPool("p1"))
		fin()
	}()
	for k := 0; k < 6; k++ {
		vr.Yield()
	}
	dmu.Lock()
	vr.Assert(done == 3, "a handler or status query did not finish")
	dmu.Unlock()
	vr.Assert(vr.RaceFree(), "data race: allocator state is accessed concurrently without a common lock")
	vr.StopTracking()
	for _, pc := range seen {
		vr.Assert(pc.AvailableIPv4 >= 0 && pc.AssignedIPv4 >= 0, "a status query saw a negative counter")
	}
	// serial replay in the order of effect
	r, _ := build()
	for _, o := range order {
		if o == "svc" {
			r.SetBalancer(lg, "ns0/s0", nil, nil)
		} else {
			r.SetPools(lg, vhCtlPools(newPools))
		}
	}
	_ = api
	same := vr.And(vr.SameState(c.ips.IPs("ns0/s1"), r.ips.IPs("ns0/s1")), vr.SameState(c.ips.IPs("ns0/s0"), r.ips.IPs("ns0/s0")))
	same = vr.And(same, vr.And(vr.SameState(c.ips.CountersForPool("p0"), r.ips.CountersForPool("p0")), vr.SameState(c.ips.CountersForPool("p1"), r.ips.CountersForPool("p1"))))
	vr.Assert(same, "concurrent delivery produced allocator state that no serial order of the handlers produces")
	vr.Reach("controller handlers serialised")
}
