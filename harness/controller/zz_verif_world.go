//go:build verif

package main

import (
	"context"
	"errors"
	"net"

	"github.com/go-kit/log"
	"go.universe.tf/metallb/internal/allocator"
	"go.universe.tf/metallb/internal/config"
	"go.universe.tf/metallb/internal/k8s/controllers"
	vr "go.universe.tf/metallb/internal/verifrt"
	v1 "k8s.io/api/core/v1"
	apierrors "k8s.io/apimachinery/pkg/api/errors"
	metav1 "k8s.io/apimachinery/pkg/apis/meta/v1"
	"k8s.io/apimachinery/pkg/runtime/schema"
	"k8s.io/apimachinery/pkg/types"
	"k8s.io/apimachinery/pkg/util/sets"
	ctrl "sigs.k8s.io/controller-runtime"
	"sigs.k8s.io/controller-runtime/pkg/client"
	"sigs.k8s.io/controller-runtime/pkg/event"
)

var verifHarnesses = map[string]func(a []int){
	"VerifControllerWorld": func(a []int) { VerifControllerWorld(a[0], a[1], a[2], a[3]) },
	"VerifControllerCrash": func(a []int) { VerifControllerCrash(a[0], a[1], a[2]) },
}

// ---- the cluster as the controller sees it: an in-memory API server for Services

type vhAPI struct {
	client.Client // unimplemented methods panic (nil interface)
	names   []string
	objs    map[string]*v1.Service
	perm    int // listing permutation index
	writes  int
	failing int // number of status writes that will fail next
	listFails int // number of List calls that will fail next
}

func (a *vhAPI) Get(_ context.Context, key client.ObjectKey, obj client.Object, _ ...client.GetOption) error {
	s, ok := a.objs[key.String()]
	if !ok {
		return apierrors.NewNotFound(schema.GroupResource{Resource: "services"}, key.Name)
	}
	s.DeepCopyInto(obj.(*v1.Service))
	return nil
}

func (a *vhAPI) List(_ context.Context, list client.ObjectList, _ ...client.ListOption) error {
	if a.listFails > 0 {
		a.listFails--
		return errors.New("injected list failure")
	}
	l := list.(*v1.ServiceList)
	l.Items = nil
	var order []int
	n := len(a.names)
	switch n {
	case 2:
		order = [][]int{{0, 1}, {1, 0}}[a.perm%2]
	case 3:
		order = [][]int{{0, 1, 2}, {0, 2, 1}, {1, 0, 2}, {1, 2, 0}, {2, 0, 1}, {2, 1, 0}}[a.perm%6]
	default:
		for i := 0; i < n; i++ {
			order = append(order, i)
		}
	}
	for _, i := range order {
		if s, ok := a.objs[a.names[i]]; ok {
			l.Items = append(l.Items, *s.DeepCopy())
		}
	}
	return nil
}

// UpdateStatus is the controller's write path (service interface of package main).
func (a *vhAPI) UpdateStatus(svc *v1.Service) error {
	if a.failing > 0 {
		a.failing--
		return errors.New("injected status write failure")
	}
	key := svc.Namespace + "/" + svc.Name
	cur, ok := a.objs[key]
	if !ok {
		return errors.New("not found")
	}
	a.writes++
	cur.Status = *svc.Status.DeepCopy()
	cur.Annotations = map[string]string{}
	for k, v := range svc.Annotations {
		cur.Annotations[k] = v
	}
	return nil
}
func (a *vhAPI) Infof(*v1.Service, string, string, ...interface{})  {}
func (a *vhAPI) Errorf(*v1.Service, string, string, ...interface{}) {}

// ---- pool layouts

type vhPool struct {
	name   string
	cidr   string
	pinned bool // pinned to namespace ns0
}

func vhCtlLayout(layout int) []vhPool {
	switch layout {
	case 0:
		return []vhPool{{name: "p0", cidr: "10.0.0.0/31"}}
	case 1:
		return []vhPool{{name: "p0", cidr: "10.0.0.0/32", pinned: true}, {name: "p1", cidr: "10.0.1.0/32"}}
	}
	return []vhPool{{name: "p0", cidr: "10.0.0.0/32"}}
}

func vhCtlPools(ps []vhPool) *config.Pools {
	out := &config.Pools{ByName: map[string]*config.Pool{}, ByNamespace: map[string][]string{}}
	for _, p := range ps {
		_, n, _ := net.ParseCIDR(p.cidr)
		cp := &config.Pool{Name: p.name, CIDR: []*net.IPNet{n}, AutoAssign: true}
		if p.pinned {
			cp.ServiceAllocations = &config.ServiceAllocation{Namespaces: sets.New("ns0")}
			out.ByNamespace["ns0"] = append(out.ByNamespace["ns0"], p.name)
		}
		out.ByName[p.name] = cp
	}
	return out
}

// ---- services

// vhSpec is the harness' record of what a service asks for and what is recorded for it.
type vhSpec struct {
	name    string
	lb      bool   // type LoadBalancer
	sharing string // allow-shared-ip annotation ("" = none)
	port    int32
	reqIP   net.IP // spec.loadBalancerIP (nil = none)
	reqPool string // address-pool annotation
	recIP   net.IP // recorded status address (nil = none)
	badReq  bool   // the address request is malformed (spec.loadBalancerIP and the loadBalancerIPs annotation both set)
}

func vhSymAddr() net.IP { return net.IP{10, 0, vr.Byte() & 1, vr.Byte() & 1} }

func vhBuildService(s *vhSpec) *v1.Service {
	ns, name := "ns0", s.name[4:]
	svc := &v1.Service{ObjectMeta: metav1.ObjectMeta{Namespace: ns, Name: name, Annotations: map[string]string{}},
		Spec: v1.ServiceSpec{Type: v1.ServiceTypeClusterIP, ClusterIP: "10.96.0.7", ClusterIPs: []string{"10.96.0.7"},
			Ports: []v1.ServicePort{{Protocol: v1.ProtocolTCP, Port: s.port}}, ExternalTrafficPolicy: v1.ServiceExternalTrafficPolicyTypeCluster}}
	if s.lb {
		svc.Spec.Type = v1.ServiceTypeLoadBalancer
	}
	if s.sharing != "" {
		svc.Annotations[AnnotationAllowSharedIP] = s.sharing
	}
	vhSetReqIP(svc, s)
	if s.reqPool != "" {
		svc.Annotations[vhPoolKey(s)] = s.reqPool
	}
	if s.recIP != nil {
		svc.Status.LoadBalancer.Ingress = []v1.LoadBalancerIngress{{IP: s.recIP.String()}}
	}
	return svc
}

// Spellings: service s0 uses spec.loadBalancerIP and the current pool annotation, s1 the deprecated
// annotations (metallb.universe.tf/...), s2 the current loadBalancerIPs annotation.
func vhPoolKey(s *vhSpec) string {
	if s.name == "ns0/s1" {
		return DeprecatedAnnotationAddressPool
	}
	return AnnotationAddressPool
}

func vhSetReqIP(svc *v1.Service, s *vhSpec) {
	svc.Spec.LoadBalancerIP = ""
	delete(svc.Annotations, AnnotationLoadBalancerIPs)
	delete(svc.Annotations, DeprecatedAnnotationLoadBalancerIPs)
	if s.reqIP == nil {
		return
	}
	switch s.name {
	case "ns0/s1":
		svc.Annotations[DeprecatedAnnotationLoadBalancerIPs] = s.reqIP.String()
	case "ns0/s2":
		svc.Annotations[AnnotationLoadBalancerIPs] = s.reqIP.String()
	default:
		svc.Spec.LoadBalancerIP = s.reqIP.String()
	}
}

// lite: explicit address requests only on service 1, no pool requests (smaller case split).
func vhSymSpec(i int, withRecorded, lite bool) *vhSpec {
	s := &vhSpec{name: []string{"ns0/s0", "ns0/s1", "ns0/s2"}[i], lb: true}
	s.sharing = vr.PickString("", "k")
	s.port = int32(vr.Int(80, 81))
	if (!lite || i == 1) && vr.Bool() {
		s.reqIP = vhSymAddr()
	}
	if !lite && vr.Bool() {
		s.reqPool = "p0"
	}
	if withRecorded && vr.Bool() {
		s.recIP = vhSymAddr()
	}
	return s
}

// ---- oracle

func vhPoolOf(ps []vhPool, ip net.IP) string {
	for _, p := range ps {
		_, n, _ := net.ParseCIDR(p.cidr)
		if n.Contains(ip) {
			return p.name
		}
	}
	return ""
}

// vhCtlShare: two services may share an address (both Cluster policy here).
func vhCtlShare(a, b *vhSpec) bool {
	return vr.And(vr.And(a.sharing != "", a.sharing == b.sharing), a.port != b.port)
}

// vhAddrOK: address ip is acceptable for s given what the others hold (others[i] may be nil).
func vhAddrOK(ps []vhPool, s *vhSpec, ip net.IP, specs []*vhSpec, held []net.IP, self int) bool {
	ok := true
	// in a pool
	inPool := false
	for _, p := range ps {
		_, n, _ := net.ParseCIDR(p.cidr)
		in := n.Contains(ip)
		inPool = vr.Or(inPool, in)
		if s.reqPool != "" && p.name != s.reqPool {
			ok = vr.And(ok, vr.Not(in))
		}
	}
	ok = vr.And(ok, inPool)
	if s.reqIP != nil {
		ok = vr.And(ok, s.reqIP.Equal(ip))
	}
	for j, o := range specs {
		if j == self || held[j] == nil {
			continue
		}
		ok = vr.And(ok, vr.Implies(held[j].Equal(ip), vhCtlShare(s, o)))
	}
	return ok
}

// vhAdmissible: some address exists that s could get, given what the others hold.
func vhAdmissible(ps []vhPool, s *vhSpec, specs []*vhSpec, held []net.IP, self int) bool {
	any := false
	for _, p := range ps {
		_, n, _ := net.ParseCIDR(p.cidr)
		ones, _ := n.Mask.Size()
		cnt := 1 << uint(32-ones)
		for k := 0; k < cnt; k++ {
			ip := net.IP{n.IP[0], n.IP[1], n.IP[2], n.IP[3] + byte(k)}
			any = vr.Or(any, vhAddrOK(ps, s, ip, specs, held, self))
		}
	}
	return any
}

func vhStatusIP(svc *v1.Service) net.IP {
	if svc == nil || len(svc.Status.LoadBalancer.Ingress) == 0 {
		return nil
	}
	return net.ParseIP(svc.Status.LoadBalancer.Ingress[0].IP)
}

// ---- driving the reconciler until nothing is pending

var vhReloadReq = ctrl.Request{NamespacedName: types.NamespacedName{Namespace: "metallbreload", Name: "reload"}}

type vhCluster struct {
	api   *vhAPI
	c     *controller
	r     *controllers.ServiceReconciler
	pools []vhPool
}

func vhStart(api *vhAPI, ps []vhPool) *vhCluster {
	c := &controller{client: api, ips: allocator.New(func(string) {})}
	r := &controllers.ServiceReconciler{Client: api, Logger: log.NewNopLogger(), Handler: c.SetBalancer, Reload: make(chan event.GenericEvent, 64)}
	return &vhCluster{api: api, c: c, r: r, pools: ps}
}

// settle runs everything the reconcilers have pending: reload requests (retried while they ask to)
// and the given single-service request (retried while it fails).
func (w *vhCluster) settle(first *ctrl.Request) {
	ctx := context.Background()
	if first != nil {
		for try := 0; ; try++ {
			vr.Assert(try < 6, "no quiescence: a Service event is retried without end although nothing fails any more")
			if try >= 6 {
				vr.Stop()
			}
			_, err := w.r.Reconcile(ctx, *first)
			if err == nil {
				break
			}
		}
	}
	for round := 0; len(w.r.Reload) > 0; round++ {
		// every re-sync requests another one: the controller never becomes quiescent
		vr.Assert(round < 6, "no quiescence: six consecutive full re-syncs each requested a further one")
		if round >= 6 {
			vr.Stop()
		}
		for len(w.r.Reload) > 0 {
			<-w.r.Reload
		}
		for try := 0; ; try++ {
			vr.Assert(try < 8, "no quiescence: the full re-sync asks to be retried without end although nothing fails any more")
			if try >= 8 {
				vr.Stop()
			}
			_, err := w.r.Reconcile(ctx, vhReloadReq)
			if err == nil {
				break
			}
		}
	}
}

func (w *vhCluster) reload() {
	w.r.Reload <- controllers.NewReloadEvent()
	w.settle(nil)
}

// quiescent asserts the properties that must hold whenever the controller has no pending work.
func (w *vhCluster) quiescent(specs []*vhSpec, tag string) []net.IP {
	held := make([]net.IP, len(specs))
	for i, s := range specs {
		obj := w.api.objs[s.name]
		if obj == nil {
			continue
		}
		held[i] = vhStatusIP(obj)
		// controller memory equals the recorded status
		mem := w.c.ips.IPs(s.name)
		if held[i] == nil {
			vr.Assert(len(mem) == 0, tag+": the controller remembers an address the Service status does not record")
		} else {
			vr.Assert(len(mem) == 1 && mem[0].Equal(held[i]), tag+": controller memory differs from the Service status")
			// C02: pool annotation names the owning pool; explicit requests honoured
			vr.Assert(obj.Annotations[AnnotationIPAllocateFromPool] == vhPoolOf(w.pools, held[i]) && vhPoolOf(w.pools, held[i]) != "", tag+": recorded pool annotation does not name the pool owning the address")
			vr.Assert(s.lb, tag+": a Service that is not a LoadBalancer holds an address")
		}
	}
	for i, s := range specs {
		if w.api.objs[s.name] == nil || !s.lb {
			continue
		}
		if held[i] != nil {
			vr.Assert(vhAddrOK(w.pools, s, held[i], specs, held, i), tag+": a Service holds an address that violates exclusivity, its explicit request or its requested pool")
		} else if !s.badReq {
			vr.Assert(vr.Not(vhAdmissible(w.pools, s, specs, held, i)), tag+": a Service is without address although an admissible address exists")
		}
	}
	return held
}

// VerifControllerWorld: restart from recorded statuses, quiescence, one event, quiescence (C03, C06, C07 and
// the status halves of C01, C02). nsvc services; event kinds: 0 none (double re-sync only), 1 delete,
// 2 re-type to ClusterIP, 3 change of request, 4 sharing-key / port change, 5 pool change.
func VerifControllerWorld(layout, nsvc, eventKind, failures int) {
	lite := layout >= 10
	stale := layout >= 20 && layout < 30
	malformed := layout >= 30 // the first Service carries a malformed address request
	layout %= 10
	ps := vhCtlLayout(layout)
	api := &vhAPI{objs: map[string]*v1.Service{}, perm: vr.Choose(6)}
	var specs []*vhSpec
	for i := 0; i < nsvc; i++ {
		s := vhSymSpec(i, true, lite)
		specs = append(specs, s)
		api.names = append(api.names, s.name)
		api.objs[s.name] = vhBuildService(s)
		if s.recIP != nil {
			// the recorded-pool annotation may be missing (older release, stripped by a tool); it matters
			// together with a pool request and when status writes can fail (the normalising write), so it is
			// varied only then
			if !((s.reqPool != "" || failures > 0) && vr.Bool()) {
				api.objs[s.name].Annotations[AnnotationIPAllocateFromPool] = vhPoolOf(ps, s.recIP)
			}
		}
	}
	// the recorded world is valid: recorded addresses satisfy exclusivity, requests and pools
	rec := make([]net.IP, nsvc)
	for i, s := range specs {
		rec[i] = s.recIP
	}
	for i, s := range specs {
		if s.recIP != nil {
			vr.Assume(vhAddrOK(ps, s, s.recIP, specs, rec, i))
		}
	}
	if malformed {
		// a request nobody can honour: it never yields a new address, and it does not take away the
		// address the Service already holds (the status stays as it is)
		s0 := specs[0]
		s0.reqIP, s0.badReq = nil, true
		api.objs[s0.name].Spec.LoadBalancerIP = "10.0.0.1"
		api.objs[s0.name].Annotations[AnnotationLoadBalancerIPs] = "10.0.0.0"
	}
	// stale world (layout 20..): while no controller was running, the user changed the requested address
	// of one Service; its recorded address may no longer be what it asks for
	staleIdx := -1
	if stale {
		staleIdx = vr.Choose(nsvc)
		es := specs[staleIdx]
		es.reqIP = vhSymAddr()
		vhSetReqIP(api.objs[es.name], es)
	}
	// a new controller instance starts: pools arrive, then the first full sync; early service events
	// (before the first sync) must be ignored
	w := vhStart(api, ps)
	api.failing = failures
	early := ctrl.Request{NamespacedName: types.NamespacedName{Namespace: "ns0", Name: specs[vr.Choose(nsvc)].name[4:]}}
	if eventKind == 0 && vr.Bool() {
		// the early event may also be the deletion of a Service that no longer exists
		ghost := ctrl.Request{NamespacedName: types.NamespacedName{Namespace: "ns0", Name: "ghost"}}
		_, _ = w.r.Reconcile(context.Background(), ghost)
		w.settle(nil) // whatever that event asked for runs now, before the pools are known
	}
	_, _ = w.r.Reconcile(context.Background(), early)
	vr.Assert(api.writes == 0, "a service event delivered before the first full sync was processed")
	st := w.c.SetPools(log.NewNopLogger(), vhCtlPools(ps))
	if eventKind == 0 {
		// the pools are known now, the first full sync has not run yet: service events are still early
		_, _ = w.r.Reconcile(context.Background(), early)
		vr.Assert(api.writes == 0 && len(w.c.ips.IPs(early.NamespacedName.String())) == 0, "a service event delivered before the first full sync was processed")
	}
	if eventKind == 0 && failures > 0 && vr.Bool() {
		// the first full sync cannot even list the Services; events arriving before the retry are still early
		api.listFails = 1
		_, lerr := w.r.Reconcile(context.Background(), vhReloadReq)
		vr.Assert(lerr != nil, "a failed List was reported as a successful sync")
		memBefore := len(w.c.ips.IPs(early.NamespacedName.String()))
		_, _ = w.r.Reconcile(context.Background(), early)
		vr.Assert(api.writes == 0 && len(w.c.ips.IPs(early.NamespacedName.String())) == memBefore, "a service event was processed after a failed first sync, before any full sync succeeded")
	}
	vr.Assert(st == controllers.SyncStateReprocessAll, "SetPools must request a full re-sync")
	w.reload()
	if failures > 0 && api.failing < failures {
		vr.Reach("a failed status write was retried")
	}
	api.failing = 0
	held := w.quiescent(specs, "after restart")
	// C06: recorded addresses are kept exactly; nobody took an address recorded for somebody else
	for i, s := range specs {
		if s.recIP != nil && i != staleIdx {
			if staleIdx >= 0 && specs[staleIdx].reqIP.Equal(s.recIP) && specs[staleIdx].recIP != nil {
				// the Service whose request changed while no controller ran now asks for exactly this
				// Service's recorded address (and holds another one)
				vr.Finding("F16-restart-request-changed-to-held-address")
			}
			vr.Assert(held[i] != nil && held[i].Equal(s.recIP), "a Service lost or changed its recorded, still admissible address across a restart")
			vr.Finding("")
		}
	}
	vr.Reach("restart settled")
	// C03: a second full re-sync writes nothing
	before := api.writes
	w.reload()
	vr.Assert(api.writes == before, "re-processing converged Services wrote a status again")
	held2 := w.quiescent(specs, "after second re-sync")
	for i := range specs {
		vr.Assert((held[i] == nil) == (held2[i] == nil) && (held[i] == nil || held[i].Equal(held2[i])), "an address changed across a re-sync")
	}
	if eventKind == 0 {
		return
	}
	// one event on one service
	e := vr.Choose(nsvc)
	es := specs[e]
	prev := make([]net.IP, nsvc)
	copy(prev, held2)
	req := ctrl.Request{NamespacedName: types.NamespacedName{Namespace: "ns0", Name: es.name[4:]}}
	switch eventKind {
	case 1:
		delete(api.objs, es.name)
	case 2:
		es.lb = false
		api.objs[es.name].Spec.Type = v1.ServiceTypeClusterIP
		if vr.Bool() {
			// the API server may already have cleared the status of the re-typed service
			api.objs[es.name].Status.LoadBalancer = v1.LoadBalancerStatus{}
		}
	case 3:
		es.reqIP = nil
		if vr.Bool() {
			es.reqIP = vhSymAddr()
		}
		vhSetReqIP(api.objs[es.name], es)
	case 4:
		es.sharing = vr.PickString("", "k", "k2")
		es.port = int32(vr.Int(80, 81))
		delete(api.objs[es.name].Annotations, AnnotationAllowSharedIP)
		if es.sharing != "" {
			api.objs[es.name].Annotations[AnnotationAllowSharedIP] = es.sharing
		}
		api.objs[es.name].Spec.Ports[0].Port = es.port
	case 5:
		// the user changes (or drops) the requested pool
		es.reqPool = []string{"", "p0", "p1"}[vr.Choose(3)]
		delete(api.objs[es.name].Annotations, vhPoolKey(es))
		if es.reqPool != "" {
			api.objs[es.name].Annotations[vhPoolKey(es)] = es.reqPool
		}
	}
	api.failing = 0
	w.settle(&req)
	after := w.quiescent(specs, "after event")
	// C03: innocent services (not the one changed, address still acceptable) keep their address
	for i, s := range specs {
		if i == e || prev[i] == nil || api.objs[s.name] == nil {
			continue
		}
		still := vhAddrOK(w.pools, s, prev[i], specs, after, i)
		vr.Assert(vr.Implies(still, after[i] != nil && after[i].Equal(prev[i])), "an event on another Service moved a Service whose address is still admissible")
	}
	vr.Reach("event settled")
}

// VerifControllerCrash (C06): status writes fail while a new controller instance settles; then either
// the instance crashes (a further instance starts from whatever statuses were persisted), or a Service
// changes type / is deleted before the failed write is retried. Afterwards: nothing stolen, leaked or
// duplicated, memory equals statuses.
func VerifControllerCrash(layout, nsvc, failures int) {
	lite := layout >= 10
	layout %= 10
	ps := vhCtlLayout(layout)
	api := &vhAPI{objs: map[string]*v1.Service{}, perm: vr.Choose(6)}
	var specs []*vhSpec
	for i := 0; i < nsvc; i++ {
		s := vhSymSpec(i, true, lite)
		specs = append(specs, s)
		api.names = append(api.names, s.name)
		api.objs[s.name] = vhBuildService(s)
		if s.recIP != nil {
			// the recorded-pool annotation may be missing (older release, stripped by a tool); it matters
			// together with a pool request and when status writes can fail (the normalising write), so it is
			// varied only then
			if !((s.reqPool != "" || failures > 0) && vr.Bool()) {
				api.objs[s.name].Annotations[AnnotationIPAllocateFromPool] = vhPoolOf(ps, s.recIP)
			}
		}
	}
	rec := make([]net.IP, nsvc)
	for i, s := range specs {
		rec[i] = s.recIP
	}
	for i, s := range specs {
		if s.recIP != nil {
			vr.Assume(vhAddrOK(ps, s, s.recIP, specs, rec, i))
		}
	}
	w := vhStart(api, ps)
	api.failing = failures
	w.c.SetPools(log.NewNopLogger(), vhCtlPools(ps))
	// first attempt of the full sync: some status writes fail
	_, err := w.r.Reconcile(context.Background(), vhReloadReq)
	vr.Assume(err != nil && api.failing < failures) // at least one write failed and a retry is pending
	vr.Reach("a status write failed during the first sync")
	// whatever is persisted at this point never duplicates an address
	stored := make([]net.IP, nsvc)
	for i, s := range specs {
		stored[i] = vhStatusIP(api.objs[s.name])
	}
	for i, s := range specs {
		if stored[i] != nil {
			vr.Assert(vhAddrOK(ps, s, stored[i], specs, stored, i), "persisted statuses violate exclusivity or a request while a write is pending")
		}
	}
	api.failing = 0
	if vr.Bool() {
		// crash: a new instance starts from the persisted statuses; the address chosen but never
		// persisted is simply forgotten
		w = vhStart(api, ps)
		w.c.SetPools(log.NewNopLogger(), vhCtlPools(ps))
		w.reload()
		held := w.quiescent(specs, "after crash and restart")
		for i := range specs {
			if stored[i] != nil {
				vr.Assert(held[i] != nil && held[i].Equal(stored[i]), "a persisted, admissible address was lost or changed across a crash")
			}
		}
		vr.Reach("crash settled")
		return
	}
	// no crash: before the retry happens, a Service without persisted address changes type or disappears
	e := vr.Choose(nsvc)
	vr.Assume(stored[e] == nil)
	if vr.Bool() {
		delete(api.objs, specs[e].name)
	} else {
		specs[e].lb = false
		api.objs[specs[e].name].Spec.Type = v1.ServiceTypeClusterIP
	}
	req := ctrl.Request{NamespacedName: types.NamespacedName{Namespace: "ns0", Name: specs[e].name[4:]}}
	// the reload is retried (controller-runtime backoff) and the service event is delivered, in either order
	if vr.Bool() {
		w.r.Reload <- controllers.NewReloadEvent()
		w.settle(nil)
		w.settle(&req)
	} else {
		w.r.Reload <- controllers.NewReloadEvent()
		w.settle(&req)
	}
	w.quiescent(specs, "after failed write and type change")
	vr.Reach("failed write then change settled")
}
