//go:build verif

package main

import (
	"testing"

	vr "go.universe.tf/metallb/internal/verifrt"
)

func TestVerifReplay(t *testing.T) { vr.RunReplay(t, verifHarnesses) }
