//go:build verif

package main

import (
	"github.com/go-kit/log"
	vr "go.universe.tf/metallb/internal/verifrt"
	v1 "k8s.io/api/core/v1"
	"k8s.io/apimachinery/pkg/types"
	ctrl "sigs.k8s.io/controller-runtime"
)

func init() {
	verifHarnesses["VerifControllerCreate"] = func(a []int) { VerifControllerCreate(a[0]) }
}

// VerifControllerCreate (C07, C06): the controller starts on a cluster without any Service (the first
// full sync lists nothing, optionally after a failed List), then nsvc Services are created one after the
// other, each delivered as its own event. At quiescence every created Service has an address unless none
// is admissible, memory equals the statuses and the usual validity holds.
func VerifControllerCreate(nsvc int) {
	ps := vhCtlLayout(0) // one pool, two addresses
	api := &vhAPI{objs: map[string]*v1.Service{}, perm: 0}
	w := vhStart(api, ps)
	w.c.SetPools(log.NewNopLogger(), vhCtlPools(ps))
	if vr.Bool() {
		api.listFails = 1
	}
	w.reload()
	vr.Assert(api.writes == 0, "a status was written although no Service exists")
	var specs []*vhSpec
	for i := 0; i < nsvc; i++ {
		s := vhSymSpec(i, false, true)
		specs = append(specs, s)
		api.names = append(api.names, s.name)
		api.objs[s.name] = vhBuildService(s)
		req := ctrl.Request{NamespacedName: types.NamespacedName{Namespace: "ns0", Name: s.name[4:]}}
		w.settle(&req)
		w.quiescent(specs, "after creation")
	}
	vr.Reach("created Services settled")
}
