//go:build verif

package main

import (
	"net"

	"github.com/go-kit/log"
	"go.universe.tf/metallb/internal/config"
	vr "go.universe.tf/metallb/internal/verifrt"
	v1 "k8s.io/api/core/v1"
	metav1 "k8s.io/apimachinery/pkg/apis/meta/v1"
)

func init() {
	verifHarnesses["VerifControllerDual"] = func(a []int) { VerifControllerDual(a[0], a[1], a[2]) }
}

type vhDualSpec struct {
	name   string
	policy v1.IPFamilyPolicy
	c4, c6 bool // cluster IP families
	req    []string // explicitly requested addresses
	rec    []string // recorded addresses that must survive a restart
	both   bool     // addresses requested in two places at once: refused, the Service stays pending
}

func vhIsV4(ip net.IP) bool { return ip.To4() != nil }

// VerifControllerDual (C02 family clause, C03 stability, C07 at the family level): nsvc Services with a
// symbolic IP family policy and cluster-IP families on one pool holding both families. layout 0: two
// addresses per family; 1: one IPv4 address and two IPv6 addresses (IPv4 can run out). recorded 1: the
// first Service starts with a recorded IPv4 address; 2: and (if dual-stack) requests that address plus a
// specific IPv6 address; 5: the first Service (IPv4) requests different addresses in spec.loadBalancerIP
// and in the loadBalancerIPs annotation (either spelling).
func VerifControllerDual(nsvc, layout, recorded int) {
	c4, c6 := "10.0.0.0/31", "fd00::/127"
	if layout == 1 {
		c4 = "10.0.0.0/32"
	}
	if layout == 2 {
		c6 = "fd00::/128"
	}
	_, n4, _ := net.ParseCIDR(c4)
	_, n6, _ := net.ParseCIDR(c6)
	pools := &config.Pools{ByName: map[string]*config.Pool{"p0": {Name: "p0", CIDR: []*net.IPNet{n4, n6}, AutoAssign: true}}, ByNamespace: map[string][]string{}}
	api := &vhAPI{objs: map[string]*v1.Service{}, perm: vr.Choose(2)}
	var specs []*vhDualSpec
	for i := 0; i < nsvc; i++ {
		s := &vhDualSpec{name: []string{"ns0/s0", "ns0/s1"}[i]}
		s.policy = []v1.IPFamilyPolicy{v1.IPFamilyPolicySingleStack, v1.IPFamilyPolicyPreferDualStack, v1.IPFamilyPolicyRequireDualStack}[vr.Choose(3)]
		switch vr.Choose(3) {
		case 0:
			s.c4 = true
		case 1:
			s.c6 = true
		default:
			s.c4, s.c6 = true, true
		}
		// what the API server admits: SingleStack has one cluster IP, RequireDualStack two
		vr.Assume(!(s.policy == v1.IPFamilyPolicySingleStack && s.c4 && s.c6))
		vr.Assume(!(s.policy == v1.IPFamilyPolicyRequireDualStack && !(s.c4 && s.c6)))
		svc := &v1.Service{ObjectMeta: metav1.ObjectMeta{Namespace: "ns0", Name: s.name[4:], Annotations: map[string]string{}},
			Spec: v1.ServiceSpec{Type: v1.ServiceTypeLoadBalancer, Ports: []v1.ServicePort{{Protocol: v1.ProtocolTCP, Port: 80}},
				ExternalTrafficPolicy: v1.ServiceExternalTrafficPolicyTypeCluster}}
		pol := s.policy
		svc.Spec.IPFamilyPolicy = &pol
		if s.c4 {
			svc.Spec.ClusterIPs = append(svc.Spec.ClusterIPs, "10.96.0.7")
			svc.Spec.IPFamilies = append(svc.Spec.IPFamilies, v1.IPv4Protocol)
		}
		if s.c6 {
			svc.Spec.ClusterIPs = append(svc.Spec.ClusterIPs, "fd96::7")
			svc.Spec.IPFamilies = append(svc.Spec.IPFamilies, v1.IPv6Protocol)
		}
		svc.Spec.ClusterIP = svc.Spec.ClusterIPs[0]
		if recorded >= 1 && recorded <= 2 && i == 0 && s.c4 {
			svc.Status.LoadBalancer.Ingress = []v1.LoadBalancerIngress{{IP: "10.0.0.0"}}
			svc.Annotations[AnnotationIPAllocateFromPool] = "p0"
		}
		if recorded == 3 {
			// restart: s0 PreferDualStack holds one IPv4 address, s1 RequireDualStack holds a pair; the
			// pool's only IPv6 address is s1's
			s.policy, s.c4, s.c6 = []v1.IPFamilyPolicy{v1.IPFamilyPolicyPreferDualStack, v1.IPFamilyPolicyRequireDualStack}[i], true, true
			pol = s.policy
			svc.Spec.IPFamilyPolicy = &pol
			svc.Spec.ClusterIPs, svc.Spec.ClusterIP = []string{"10.96.0.7", "fd96::7"}, "10.96.0.7"
			svc.Spec.IPFamilies = []v1.IPFamily{v1.IPv4Protocol, v1.IPv6Protocol}
			svc.Annotations[AnnotationIPAllocateFromPool] = "p0"
			if i == 0 {
				svc.Status.LoadBalancer.Ingress = []v1.LoadBalancerIngress{{IP: "10.0.0.0"}}
				s.rec = []string{"10.0.0.0"}
			} else {
				svc.Status.LoadBalancer.Ingress = []v1.LoadBalancerIngress{{IP: "10.0.0.1"}, {IP: "fd00::"}}
				s.rec = []string{"10.0.0.1", "fd00::"}
			}
		}
		if recorded == 4 && i == 0 && s.c4 && s.c6 {
			// the Service holds a pair and the user now asks for one of the two addresses only
			svc.Status.LoadBalancer.Ingress = []v1.LoadBalancerIngress{{IP: "10.0.0.0"}, {IP: "fd00::"}}
			svc.Annotations[AnnotationIPAllocateFromPool] = "p0"
			svc.Annotations[AnnotationLoadBalancerIPs] = []string{"10.0.0.0", "fd00::"}[vr.Choose(2)]
			s.req = []string{svc.Annotations[AnnotationLoadBalancerIPs]}
		}
		if recorded == 5 && i == 0 && s.c4 && !s.c6 {
			// the user asks in two places at once (spec.loadBalancerIP and the annotation, either spelling)
			// for different, allocatable addresses
			svc.Spec.LoadBalancerIP = "10.0.0.1"
			svc.Annotations[[]string{AnnotationLoadBalancerIPs, DeprecatedAnnotationLoadBalancerIPs}[vr.Choose(2)]] = "10.0.0.0"
			s.both = true
		}
		if recorded == 2 && i == 0 && s.c4 && s.c6 {
			// the user asks for the address held plus a specific address of the other family
			svc.Annotations[AnnotationLoadBalancerIPs] = "10.0.0.0,fd00::1"
			s.req = []string{"10.0.0.0", "fd00::1"}
		}
		specs = append(specs, s)
		api.names = append(api.names, s.name)
		api.objs[s.name] = svc
	}
	w := vhStart(api, nil)
	st := w.c.SetPools(log.NewNopLogger(), pools)
	_ = st
	w.reload()
	// C03: once settled, re-processing every Service writes nothing
	for pass := 0; pass < 2; pass++ {
		before := api.writes
		w.reload()
		vr.Assert(api.writes == before, "re-processing converged Services wrote a status again (addresses keep changing)")
	}
	// families, pool membership, exclusivity, memory = status
	var all []net.IP
	held4, held6 := 0, 0
	type got struct{ n4, n6 int }
	res := make([]got, nsvc)
	for i, s := range specs {
		obj := api.objs[s.name]
		var ips []net.IP
		for _, in := range obj.Status.LoadBalancer.Ingress {
			ips = append(ips, net.ParseIP(in.IP))
		}
		mem := w.c.ips.IPs(s.name)
		vr.Assert(len(mem) == len(ips), "controller memory differs from the Service status")
		for _, ip := range ips {
			vr.Assert(ip != nil && (n4.Contains(ip) || n6.Contains(ip)), "a recorded address is outside every pool")
			for _, o := range all {
				vr.Assert(!o.Equal(ip), "one address recorded for two Services (or twice)")
			}
			all = append(all, ip)
			if vhIsV4(ip) {
				res[i].n4++
				held4++
			} else {
				res[i].n6++
				held6++
			}
		}
		g := res[i]
		if len(s.rec) > 0 {
			same := len(ips) == len(s.rec)
			for k := range s.rec {
				same = same && k < len(ips) && ips[k].Equal(net.ParseIP(s.rec[k]))
			}
			vr.Assert(same, "a Service lost or changed its recorded, still admissible addresses across a restart")
		}
		if s.both {
			vr.Assert(len(ips) == 0, "a Service that requests addresses in two places at once was given an address")
			vr.Reach("conflicting request refused")
			continue
		}
		if len(s.req) > 0 && len(ips) > 0 {
			okReq := len(ips) == len(s.req)
			for _, r := range s.req {
				found := false
				for _, ip := range ips {
					found = found || ip.Equal(net.ParseIP(r))
				}
				okReq = okReq && found
			}
			vr.Assert(okReq, "a Service that requests specific addresses holds something else")
		}
		vr.Assert(g.n4 <= 1 && g.n6 <= 1, "more than one address of a family")
		vr.Assert((g.n4 == 0 || s.c4) && (g.n6 == 0 || s.c6), "a Service holds an address of a family it has no cluster IP for")
		if s.policy == v1.IPFamilyPolicyRequireDualStack || (s.policy == v1.IPFamilyPolicySingleStack) {
			want := 0
			if s.c4 {
				want++
			}
			if s.c6 {
				want++
			}
			vr.Assert(len(ips) == 0 || len(ips) == want, "not exactly one address per cluster-IP family")
		}
		if len(ips) > 0 {
			vr.Assert(obj.Annotations[AnnotationIPAllocateFromPool] == "p0", "recorded pool annotation does not name the owning pool")
		}
	}
	// C07 at the family level: a Service without address could not have been given one
	cap4, cap6 := 2, 2
	if layout == 1 {
		cap4 = 1
	}
	if layout == 2 {
		cap6 = 1
	}
	for i, s := range specs {
		if len(api.objs[s.name].Status.LoadBalancer.Ingress) != 0 || len(s.req) > 0 || s.both {
			continue // explicit requests are satisfied exactly or not at all
		}
		free4, free6 := cap4-held4 > 0, cap6-held6 > 0
		var could bool
		switch {
		case s.policy == v1.IPFamilyPolicyRequireDualStack:
			could = free4 && free6
		case s.c4 && s.c6:
			could = free4 || free6
		case s.c4:
			could = free4
		default:
			could = free6
		}
		vr.Assert(!could, "a Service is without address although the pool has a free address of each family it needs")
		_ = i
	}
	vr.Reach("dual-stack world settled")
}
