//go:build verif

package main

import (
	"net"

	"github.com/go-kit/log"
	"go.universe.tf/metallb/internal/config"
	"go.universe.tf/metallb/internal/layer2"
	"go.universe.tf/metallb/internal/speakerlist"
	vr "go.universe.tf/metallb/internal/verifrt"
	v1 "k8s.io/api/core/v1"
	discovery "k8s.io/api/discovery/v1"
	metav1 "k8s.io/apimachinery/pkg/apis/meta/v1"
	"k8s.io/apimachinery/pkg/util/sets"
)

func init() {
	verifHarnesses["VerifL2Election"] = func(a []int) { VerifL2Election(a[0], a[1], a[2]) }
	verifHarnesses["VerifL2Failover"] = func(a []int) { VerifL2Failover(a[0], a[1], a[2]) }
}

var vhNodeNames = []string{"n0", "n1", "n2", "n3"}

type vhFakeSL struct{ info speakerlist.SpeakerListInfo }

func (f vhFakeSL) UsableSpeakers() speakerlist.SpeakerListInfo { return f.info }
func (f vhFakeSL) Rejoin()                                      {}

// vhView is one cluster view shared by all speakers, with the per-node facts the oracle needs.
type vhView struct {
	n        int
	disabled bool
	members  []bool // live speaker per node (memberlist view)
	known    []bool // Node object known
	unavail  []bool // NetworkUnavailable == True (meaningful if known)
	excluded []bool // exclude-from-external-load-balancers label present (meaningful if known)
	selected []bool // selected by at least one L2 advertisement of the pool
	ignore   bool
	local    bool
	anyServe bool   // some endpoint can serve
	hostServ []bool // node hosts an endpoint that can serve

	pool  *config.Pool
	svc   *v1.Service
	eps   []discovery.EndpointSlice
	nodes map[string]*v1.Node
	sl    vhFakeSL
	ip    net.IP
	more  []net.IP // further addresses of the service (dual-stack); the election key is the first one
	hist  bool     // every node's speaker has an arbitrary local history: it may already announce the service
}

// Focus bits: which facts of the view are symbolic (the others take their benign default).
const (
	vhFMembers  = 1  // live-speaker membership per node, memberlist enabled/disabled
	vhFNodes    = 2  // Node object known / NetworkUnavailable
	vhFExclude  = 4  // exclude-from-external-load-balancers label, ignore flag
	vhFSelect   = 8  // which L2 advertisement selects which node
	vhFEndpoint = 16 // endpoint conditions, hosting node, traffic policy
)

// vhSymView builds a view over n nodes with nadv L2 advertisements and neps endpoint entries; the
// facts selected by focus are symbolic.
func vhSymView(n, nadv, neps, focus int) *vhView {
	v := &vhView{n: n}
	if focus&vhFMembers != 0 {
		v.disabled = vr.Bool()
	}
	if focus&vhFExclude != 0 {
		v.ignore = vr.Bool()
	}
	v.nodes = map[string]*v1.Node{}
	members := map[string]bool{}
	for i := 0; i < n; i++ {
		name := vhNodeNames[i]
		// Node object: the map key is symbolic, so "known" is decided lazily at lookup time
		key := name
		st := v1.ConditionFalse
		if focus&vhFNodes != 0 {
			key = vr.PickString(name, "absent-"+name)
			st = v1.ConditionStatus(vr.PickString(string(v1.ConditionTrue), string(v1.ConditionFalse)))
		}
		known := key == name
		node := &v1.Node{ObjectMeta: metav1.ObjectMeta{Name: name, Labels: map[string]string{}}}
		node.Status.Conditions = []v1.NodeCondition{{Type: v1.NodeReady, Status: v1.ConditionTrue}, {Type: v1.NodeNetworkUnavailable, Status: st}}
		lk := "unrelated-label"
		if focus&vhFExclude != 0 {
			lk = vr.PickString(v1.LabelNodeExcludeBalancers, "unrelated-label")
		}
		// the label excludes the node by its presence, whatever its value
		lv := ""
		if focus&vhFExclude != 0 {
			lv = vr.PickString("", "true", "false")
		}
		node.Labels[lk] = lv
		v.nodes[key] = node
		v.known = append(v.known, known)
		v.unavail = append(v.unavail, st == v1.ConditionTrue)
		v.excluded = append(v.excluded, lk == v1.LabelNodeExcludeBalancers)
		alive := false
		if !v.disabled {
			alive = true
			if focus&vhFMembers != 0 {
				alive = vr.Bool()
			}
			if alive {
				members[name] = true
			}
		}
		v.members = append(v.members, alive)
		v.selected = append(v.selected, false)
		v.hostServ = append(v.hostServ, false)
	}
	if !v.disabled {
		v.sl = vhFakeSL{speakerlist.SpeakerListInfo{Nodes: members}}
	} else {
		v.sl = vhFakeSL{speakerlist.SpeakerListInfo{Disabled: true}}
	}
	v.pool = &config.Pool{Name: "pool"}
	for a := 0; a < nadv; a++ {
		adv := &config.L2Advertisement{Nodes: map[string]bool{}}
		for i := 0; i < n; i++ {
			sel := true
			if focus&vhFSelect != 0 {
				sel = vr.Bool()
			}
			adv.Nodes[vhNodeNames[i]] = sel
			v.selected[i] = vr.Or(v.selected[i], sel)
		}
		v.pool.L2Advertisements = append(v.pool.L2Advertisements, adv)
	}
	pol := v1.ServiceExternalTrafficPolicyTypeCluster
	if focus&vhFEndpoint != 0 {
		v.local = vr.Bool()
		if v.local {
			pol = v1.ServiceExternalTrafficPolicyTypeLocal
		}
	}
	v.svc = &v1.Service{Spec: v1.ServiceSpec{ExternalTrafficPolicy: pol}}
	var sl discovery.EndpointSlice
	if focus&vhFEndpoint == 0 {
		sl.Endpoints = []discovery.Endpoint{{Addresses: []string{"10.1.0.1"}}}
		v.anyServe = true
	} else {
		for e := 0; e < neps; e++ {
			var ep discovery.Endpoint
			serves := true
			if vr.Bool() {
				r, s, t := vr.Bool(), vr.Bool(), vr.Bool()
				ep.Conditions.Ready = &r
				ep.Conditions.Serving = &s
				ep.Conditions.Terminating = &t // never matters: a terminating endpoint that serves still counts
				serves = vr.Or(r, s)
			}
			ep.Addresses = []string{"10.1.0.1"}
			v.anyServe = vr.Or(v.anyServe, serves)
			if vr.Bool() {
				nn := vr.PickString(vhNodeNames[:n]...)
				ep.NodeName = &nn
				for i := 0; i < n; i++ {
					v.hostServ[i] = vr.Or(v.hostServ[i], vr.And(serves, nn == vhNodeNames[i]))
				}
			}
			sl.Endpoints = append(sl.Endpoints, ep)
		}
	}
	v.eps = []discovery.EndpointSlice{sl}
	v.ip = net.IP{vr.Byte(), vr.Byte(), vr.Byte(), vr.Byte()}
	return v
}

// eligible is the oracle of the property statement for node i.
func (v *vhView) eligible(i int) bool {
	alive := v.members[i]
	if v.disabled {
		alive = v.known[i]
	}
	e := vr.And(alive, v.selected[i])
	e = vr.And(e, vr.Not(vr.And(v.known[i], v.unavail[i])))
	e = vr.And(e, vr.Or(v.ignore, vr.Not(vr.And(v.known[i], v.excluded[i]))))
	e = vr.And(e, v.anyServe)
	if v.local {
		e = vr.And(e, v.hostServ[i])
	}
	return e
}

// elect runs the real ShouldAnnounce on every node of the view; it returns who answered.
func (v *vhView) elect(name string) []bool {
	won := make([]bool, v.n)
	for i := 0; i < v.n; i++ {
		c := &layer2Controller{myNode: vhNodeNames[i], sList: v.sl, ignoreExcludeLB: v.ignore}
		if v.hist {
			// local history of this speaker: it may have been announcing the service already
			c.announcer = layer2.VerifNewAnnounce([]string{"eth0"})
			if vr.Bool() {
				c.announcer.SetBalancer(name, layer2.NewIPAdvertisement(v.ip, true, sets.New[string]()))
			}
		}
		won[i] = c.ShouldAnnounce(log.NewNopLogger(), name, append([]net.IP{v.ip}, v.more...), v.pool, v.svc, v.eps, v.nodes) == ""
	}
	return won
}

// VerifL2Election (C04): exactly one eligible node answers when somebody is eligible, nobody otherwise.
func VerifL2Election(n, focus, order int) {
	vr.MapOrder(order)
	nadv := 1
	if focus&vhFSelect != 0 {
		nadv = 2
	}
	v := vhSymView(n, nadv, 2, focus)
	won := v.elect("ns/svc")
	winners := 0
	anyEligible := false
	for i := 0; i < n; i++ {
		el := v.eligible(i)
		anyEligible = vr.Or(anyEligible, el)
		if won[i] {
			winners++
			vr.Assert(el, "the elected node is not eligible")
		}
	}
	vr.Assert(winners <= 1, "more than one node answers for the address")
	vr.Assert((winners == 1) == anyEligible, "an eligible node exists but nobody answers (or the reverse)")
	if winners == 1 {
		vr.Reach("elected")
	} else {
		vr.Reach("nobody eligible")
	}
}

// VerifL2Failover (C12): the announcer only changes if it is lost; the choice depends only on the set of
// eligible nodes and the address. Two views over the same nodes and address: the second differs in
// memberlist membership, network availability, advertisement selection, policy and endpoints, and is
// assumed to have a subset of the first one's eligible nodes.
func VerifL2Failover(n, focus, order int) {
	v1v := vhSymView(n, 1, 1, focus)
	neps2 := 1
	if focus&vhFEndpoint != 0 {
		neps2 = 2 // several endpoint entries (possibly on one node, in any order) in the second view
	}
	v2v := vhSymView(n, 1, neps2, focus)
	v2v.ip = v1v.ip
	// the second service may be dual-stack: same first address plus an arbitrary IPv6 one
	if vr.Bool() {
		ip6 := make(net.IP, 16)
		ip6[0] = 0xfd
		for k := 8; k < 16; k++ {
			ip6[k] = vr.Byte()
		}
		v2v.more = []net.IP{ip6}
	}
	for i := 0; i < n; i++ {
		vr.Assume(vr.Implies(v2v.eligible(i), v1v.eligible(i)))
	}
	// the first view is listed in canonical order, the second in every order of the chosen mode
	w1 := v1v.elect("ns/one")
	// focus bit 32: the speakers of the second view have arbitrary local histories
	v2v.hist = focus&32 != 0
	vr.MapOrder(order)
	w2 := v2v.elect("ns/two")
	vr.MapOrder(vr.OrderInsertion)
	for i := 0; i < n; i++ {
		if w1[i] {
			// node i announced before the change
			vr.Assert(vr.Implies(v2v.eligible(i), w2[i]), "the announcer moved although the previous announcer is still eligible")
			vr.Reach("previous announcer considered")
		}
		if w2[i] {
			vr.Assert(v1v.eligible(i), "unreachable: eligible sets are nested")
		}
	}
	// converse reading (nodes added): the winner of the larger set is the old winner or one of the added nodes
	for i := 0; i < n; i++ {
		if w2[i] {
			for j := 0; j < n; j++ {
				if w1[j] && j != i {
					vr.Assert(vr.Not(v2v.eligible(j)), "after adding nodes the announcer is neither the old one nor an added node")
				}
			}
		}
	}
}
