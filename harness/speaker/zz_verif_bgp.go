//go:build verif

package main

import (
	"github.com/go-kit/log"
	"go.universe.tf/metallb/internal/config"
	vr "go.universe.tf/metallb/internal/verifrt"
	v1 "k8s.io/api/core/v1"
	discovery "k8s.io/api/discovery/v1"
	metav1 "k8s.io/apimachinery/pkg/apis/meta/v1"
)

var verifHarnesses = map[string]func(a []int){
	"VerifBGPShouldAnnounce": func(a []int) { VerifBGPShouldAnnounce(a[0], a[1], a[2]) },
	"VerifEndpointCanServe":  func(a []int) { VerifEndpointCanServe() },
}

const vhMe = "node-me"
const vhOther = "node-other"

// vhEntry is the harness-side description of one endpoint-slice entry (symbolic booleans).
type vhEntry struct {
	named  bool // has a node name
	onMe   bool // node name is this node
	hasA   bool // carries address A
	hasB   bool // carries address B
	serves bool // oracle: ready == nil || *ready || (serving != nil && *serving)
}

func vhBoolPtr(b bool) *bool { return &b }

const vhAddrA = "10.0.0.1"
const vhAddrB = "10.0.0.2"

// vhSymEntry builds one endpoint with symbolic conditions, node name and addresses.
func vhSymEntry() (discovery.Endpoint, vhEntry) {
	var ep discovery.Endpoint
	var e vhEntry
	if vr.Bool() {
		n := vr.PickString(vhMe, vhOther)
		ep.NodeName = &n
		e.named = true
		e.onMe = n == vhMe
	}
	if vr.Bool() {
		a := vr.PickString(vhAddrA, vhAddrB)
		ep.Addresses = []string{a}
		e.hasA = a == vhAddrA
		e.hasB = a == vhAddrB
	} else {
		e.hasA, e.hasB = true, true
		ep.Addresses = []string{vhAddrA, vhAddrB}
	}
	switch vr.Choose(4) {
	case 0: // no opinion: counts as ready
		e.serves = true
	case 1:
		r := vr.Bool()
		ep.Conditions.Ready = vhBoolPtr(r)
		e.serves = r
	case 2:
		r, s := vr.Bool(), vr.Bool()
		ep.Conditions.Ready = vhBoolPtr(r)
		ep.Conditions.Serving = vhBoolPtr(s)
		e.serves = vr.Or(r, s)
	case 3: // ready unset, serving set: ready == nil means it can serve
		s := vr.Bool()
		ep.Conditions.Serving = vhBoolPtr(s)
		e.serves = true
	}
	return ep, e
}

// VerifEndpointCanServe: the readiness predicate on every nil/true/false combination.
func VerifEndpointCanServe() {
	var c discovery.EndpointConditions
	want := true
	readySet, servingSet := vr.Bool(), vr.Bool()
	r, s := vr.Bool(), vr.Bool()
	if readySet {
		c.Ready = &r
		want = r
	}
	if servingSet {
		c.Serving = &s
		if readySet {
			want = vr.Or(r, s)
		}
	}
	// terminating never matters
	t := vr.Bool()
	if vr.Bool() {
		c.Terminating = &t
	}
	eps := []discovery.EndpointSlice{{Endpoints: []discovery.Endpoint{{Addresses: []string{"10.0.0.1"}, Conditions: c}}}}
	got := hasHealthyEndpoint(eps, func(*string) bool { return false })
	vr.Assert(got == want, "endpoint counts as ready iff ready is unset/true or serving is true")
	vr.Reach("can-serve evaluated")
}

// VerifBGPShouldAnnounce: eligibility iff the oracle of the property statement.
// focus 0: node state and advertisement selection in full variety, one always-ready local endpoint;
// focus 1: endpoint slices in full variety (nslices x nper entries), plain node state;
// focus 2: both varied moderately (interplay).
func VerifBGPShouldAnnounce(focus, nslices, nper int) {
	ignoreExclude := vr.Bool()
	unavailable := false
	excluded := false
	nodes := map[string]*v1.Node{}
	nodeKnown := true
	if focus != 1 {
		nodeKnown = vr.Bool()
	}
	if nodeKnown {
		n := &v1.Node{ObjectMeta: metav1.ObjectMeta{Name: vhMe, Labels: map[string]string{"kubernetes.io/hostname": vhMe}}}
		ncond := 0
		switch focus {
		case 0:
			ncond = vr.Choose(3)
		case 2:
			ncond = 1
		}
		decided := false
		for i := 0; i < ncond; i++ {
			var c v1.NodeCondition
			c.Type = v1.NodeConditionType(vr.PickString(string(v1.NodeNetworkUnavailable), string(v1.NodeReady), string(v1.NodeMemoryPressure)))
			c.Status = v1.ConditionStatus(vr.PickString(string(v1.ConditionTrue), string(v1.ConditionFalse), string(v1.ConditionUnknown)))
			n.Status.Conditions = append(n.Status.Conditions, c)
			// oracle: the first NetworkUnavailable condition decides
			isNU := c.Type == v1.NodeNetworkUnavailable
			isTrue := c.Status == v1.ConditionTrue
			unavailable = vr.IteBool(vr.And(!decided, isNU), isTrue, unavailable)
			decided = vr.Or(decided, isNU)
		}
		if focus != 1 && vr.Bool() {
			n.Labels[v1.LabelNodeExcludeBalancers] = vr.PickString("", "true", "false")
			excluded = true
		}
		nodes[vhMe] = n
	}
	// advertisements of the pool
	pool := &config.Pool{Name: "pool"}
	selected := false
	nadv := 1
	if focus == 0 {
		nadv = vr.Choose(3)
	}
	for i := 0; i < nadv; i++ {
		adv := &config.BGPAdvertisement{Nodes: map[string]bool{}}
		kind := 0
		if focus != 1 {
			kind = vr.Choose(3)
		}
		switch kind {
		case 0: // this node selected
			adv.Nodes[vhMe] = true
			selected = true
		case 1: // only another node selected
			adv.Nodes[vhOther] = true
		case 2: // node present but deselected
			adv.Nodes[vhMe] = false
			adv.Nodes[vhOther] = true
		}
		pool.BGPAdvertisements = append(pool.BGPAdvertisements, adv)
	}
	local := vr.Bool()
	svc := &v1.Service{Spec: v1.ServiceSpec{ExternalTrafficPolicy: v1.ServiceExternalTrafficPolicyTypeCluster}}
	if local {
		svc.Spec.ExternalTrafficPolicy = v1.ServiceExternalTrafficPolicyTypeLocal
	}
	var slices []discovery.EndpointSlice
	var entries []vhEntry
	if focus == 0 {
		me := vhMe
		slices = []discovery.EndpointSlice{{Endpoints: []discovery.Endpoint{{Addresses: []string{vhAddrA}, NodeName: &me}}}}
		entries = []vhEntry{{named: true, onMe: true, hasA: true, serves: true}}
	} else {
		for s := 0; s < nslices; s++ {
			var sl discovery.EndpointSlice
			for e := 0; e < nper; e++ {
				ep, d := vhSymEntry()
				sl.Endpoints = append(sl.Endpoints, ep)
				entries = append(entries, d)
			}
			slices = append(slices, sl)
		}
	}
	// input assumption: an endpoint address lives on at most one node - except when the Service has a
	// single endpoint address altogether (then the same address may be listed for several nodes, or
	// without a node, with conflicting conditions: stale or duplicated slices)
	single := true
	for _, e := range entries {
		single = vr.And(single, vr.Not(e.hasB))
	}
	for i := range entries {
		for j := i + 1; j < len(entries); j++ {
			share := vr.Or(vr.And(entries[i].hasA, entries[j].hasA), vr.And(entries[i].hasB, entries[j].hasB))
			same := vr.And(entries[i].named == entries[j].named, entries[i].onMe == entries[j].onMe)
			vr.Assume(vr.Or(single, vr.Implies(share, same)))
		}
	}
	c := &bgpController{myNode: vhMe, ignoreExcludeLB: ignoreExclude}
	got := c.ShouldAnnounce(log.NewNopLogger(), "ns/svc", nil, pool, svc, slices, nodes)

	// oracle, from the statement
	readyAddr := func(pickA bool) (exists bool, allServe bool, onMe bool) {
		allServe = true
		for _, e := range entries {
			has := e.hasB
			if pickA {
				has = e.hasA
			}
			exists = vr.Or(exists, has)
			allServe = vr.And(allServe, vr.Implies(has, e.serves))
			onMe = vr.Or(onMe, vr.And(has, vr.And(e.named, e.onMe)))
		}
		return
	}
	exA, okA, meA := readyAddr(true)
	exB, okB, meB := readyAddr(false)
	anyReady := vr.Or(vr.And(exA, okA), vr.And(exB, okB))
	localReady := vr.Or(vr.And(vr.And(exA, meA), okA), vr.And(vr.And(exB, meB), okB))
	want := vr.And(selected, vr.And(!unavailable, vr.Or(ignoreExclude, !excluded)))
	if local {
		want = vr.And(want, localReady)
	} else {
		want = vr.And(want, anyReady)
	}
	vr.Assert((got == "") == want, "BGP announcement eligibility differs from the statement")
	if got == "" {
		vr.Reach("announces")
	} else {
		vr.Reach("does not announce: " + got)
	}
}
