//go:build verif

package main

import (
	"errors"
	"net"

	"github.com/go-kit/log"
	"go.universe.tf/metallb/internal/bgp"
	"go.universe.tf/metallb/internal/bgp/community"
	"go.universe.tf/metallb/internal/config"
	vr "go.universe.tf/metallb/internal/verifrt"
	"k8s.io/apimachinery/pkg/util/sets"
)

func init() {
	verifHarnesses["VerifBGPRoutes"] = func(a []int) { VerifBGPRoutes(a[0], a[1], a[2]) }
}

// ---- a session manager that records what each session was last told to advertise

type vhRecSession struct {
	name   string
	last   []*bgp.Advertisement
	sets   int
	closed bool
}

func (s *vhRecSession) Set(advs ...*bgp.Advertisement) error {
	s.last = append([]*bgp.Advertisement(nil), advs...)
	s.sets++
	return nil
}
func (s *vhRecSession) Close() error { s.closed = true; return nil }

type vhRecManager struct {
	sessions map[string]*vhRecSession
	fail     string // sessions to this peer cannot be started
}

func (m *vhRecManager) NewSession(_ log.Logger, args bgp.SessionParameters) (bgp.Session, error) {
	if m.fail != "" && args.SessionName == m.fail {
		return nil, errors.New("injected: session cannot be started")
	}
	s := &vhRecSession{name: args.SessionName}
	m.sessions[args.SessionName] = s
	return s, nil
}
func (m *vhRecManager) SyncBFDProfiles(map[string]*config.BFDProfile) error { return nil }
func (m *vhRecManager) SyncExtraInfo(string) error                        { return nil }
func (m *vhRecManager) SetEventCallback(func(interface{}))                {}

var vhCommA, _ = community.New("1:100")
var vhCommB, _ = community.New("large:64512:1:2")

// vhAdvSpec is the harness' record of one BGP advertisement of the pool.
type vhAdvSpec struct {
	len4, len6 int
	lp         uint32
	commA      bool
	commB      bool
	peers      int  // bit0: peer0 named, bit1: peer1 named, 0 = all peers
	node       bool // selects this node
}

// idx > 0 (further advertisements of the pool) draw from a smaller menu.
func vhSymBGPAdv(idx int) (*config.BGPAdvertisement, vhAdvSpec) {
	s := vhAdvSpec{}
	if idx == 0 {
		s.len4 = []int{32, 31, 24}[vr.Choose(3)]
		s.len6 = []int{128, 120}[vr.Choose(2)]
	} else {
		s.len4 = []int{32, 24}[vr.Choose(2)]
		s.len6 = 128
	}
	s.lp = vr.IteU32(vr.Bool(), 0, vr.Uint32())
	s.node = vr.Bool()
	a := &config.BGPAdvertisement{AggregationLength: s.len4, AggregationLengthV6: s.len6, LocalPref: s.lp,
		Communities: map[community.BGPCommunity]bool{}, Nodes: map[string]bool{vhMe: s.node, vhOther: true}}
	ncomm := 3
	if idx > 0 {
		ncomm = 2
	}
	switch vr.Choose(ncomm) {
	case 1:
		a.Communities[vhCommA] = true
		s.commA = true
	case 2:
		a.Communities[vhCommA] = true
		a.Communities[vhCommB] = true
		s.commA, s.commB = true, true
	}
	s.peers = vr.Choose(4)
	switch s.peers {
	case 1:
		a.Peers = []string{"peer0"}
	case 2:
		a.Peers = []string{"peer1"}
	case 3:
		a.Peers = []string{"peer0", "peer1"}
	}
	return a, s
}

// vhMasked: the address truncated to n bits, computed by the oracle with plain bit arithmetic.
func vhMasked(ip net.IP, n int) net.IP {
	out := make(net.IP, len(ip))
	for i := range ip {
		bits := n - 8*i
		var m byte
		switch {
		case bits >= 8:
			m = 0xff
		case bits <= 0:
			m = 0
		default:
			m = ^byte(0xff >> uint(bits))
		}
		out[i] = ip[i] & m
	}
	return out
}

// vhRouteIs: does the advertisement handed to a session equal the route (ip/len, spec attributes)?
func vhRouteIs(ad *bgp.Advertisement, ip net.IP, n int, s vhAdvSpec) bool {
	want := vhMasked(ip, n)
	ones, bits := ad.Prefix.Mask.Size()
	ok := ones == n && bits == 8*len(ip) && len(ad.Prefix.IP) == len(ip)
	if !ok {
		return false
	}
	eq := true
	for i := range want {
		eq = vr.And(eq, ad.Prefix.IP[i] == want[i])
	}
	eq = vr.And(eq, ad.LocalPref == s.lp)
	hasA, hasB := false, false
	for _, c := range ad.Communities {
		if c == vhCommA {
			hasA = true
		}
		if c == vhCommB {
			hasB = true
		}
	}
	ncomm := 0
	if s.commA {
		ncomm++
	}
	if s.commB {
		ncomm++
	}
	return vr.And(eq, hasA == s.commA && hasB == s.commB && len(ad.Communities) == ncomm)
}

type vhAnnounced struct {
	name  string
	ips   []net.IP
	on    bool
	specs []vhAdvSpec // advertisements of the service's own pool (nil = those of the first pool)
}

// VerifBGPRoutes (C05): after any step, every session was last told exactly the routes the
// configuration implies for its peer, and PeersForService names exactly the peers offered one of the
// service's prefixes. nadv advertisements on the pool; step 0: announce a second service (single or
// dual stack), 1: withdraw the first, 2: re-announce the first with another address.
func VerifBGPRoutes(nadv, step, npeers int) {
	rec := &vhRecManager{sessions: map[string]*vhRecSession{}}
	c := &bgpController{logger: log.NewNopLogger(), myNode: vhMe, svcAds: map[string][]*bgp.Advertisement{},
		activeAds: map[string]sets.Set[string]{}, sessionManager: rec, adsChangedCallback: func(string) {}}
	cfg := &config.Config{Peers: map[string]*config.Peer{}}
	peerNames := []string{"peer0", "peer1"}[:npeers]
	for i, n := range peerNames {
		cfg.Peers[n] = &config.Peer{Name: n, MyASN: 64512, ASN: uint32(64600 + i), Addr: net.IP{192, 168, 1, byte(1 + i)}, Port: 179}
	}
	vr.Assert(c.SetConfig(log.NewNopLogger(), cfg) == nil, "SetConfig failed")
	pool := &config.Pool{Name: "pool"}
	var specs []vhAdvSpec
	for i := 0; i < nadv; i++ {
		a, s := vhSymBGPAdv(i)
		pool.BGPAdvertisements = append(pool.BGPAdvertisements, a)
		specs = append(specs, s)
	}
	svcs := []*vhAnnounced{{name: "ns/a", ips: []net.IP{{10, 0, 0, vr.Byte()}}, on: true}, {name: "ns/b"}}
	vr.Assert(c.SetBalancer(log.NewNopLogger(), svcs[0].name, svcs[0].ips, pool, nil, nil) == nil, "SetBalancer failed")
	switch step {
	case 0:
		svcs[1].ips = []net.IP{{10, 0, vr.Byte() & 1, vr.Byte()}}
		if vr.Bool() {
			ip6 := net.ParseIP("fd00::")
			ip6[15] = vr.Byte()
			svcs[1].ips = append(svcs[1].ips, ip6)
		}
		svcs[1].on = true
		vr.Assert(c.SetBalancer(log.NewNopLogger(), svcs[1].name, svcs[1].ips, pool, nil, nil) == nil, "SetBalancer failed")
	case 1:
		svcs[1].ips = []net.IP{{10, 0, 0, vr.Byte()}}
		svcs[1].on = true
		vr.Assert(c.SetBalancer(log.NewNopLogger(), svcs[1].name, svcs[1].ips, pool, nil, nil) == nil, "SetBalancer failed")
		vr.Assert(c.DeleteBalancer(log.NewNopLogger(), svcs[0].name, "test") == nil, "DeleteBalancer failed")
		svcs[0].on = false
	case 2:
		svcs[0].ips = []net.IP{{10, 0, 1, vr.Byte()}}
		vr.Assert(c.SetBalancer(log.NewNopLogger(), svcs[0].name, svcs[0].ips, pool, nil, nil) == nil, "SetBalancer failed")
	case 5:
		// a second service from ANOTHER pool: one advertisement aggregating to /24 for peer0 (the
		// same aggregate as the first service's when that one aggregates to /24 as well), one /32
		// advertisement for peer1 only
		svcs[1].ips = []net.IP{{10, 0, 0, vr.Byte()}}
		svcs[1].on = true
		pool2 := &config.Pool{Name: "pool2", BGPAdvertisements: []*config.BGPAdvertisement{
			{AggregationLength: 24, AggregationLengthV6: 128, Communities: map[community.BGPCommunity]bool{}, Nodes: map[string]bool{vhMe: true, vhOther: true}, Peers: []string{"peer0"}},
			{AggregationLength: 32, AggregationLengthV6: 128, Communities: map[community.BGPCommunity]bool{}, Nodes: map[string]bool{vhMe: true, vhOther: true}, Peers: []string{"peer1"}}}}
		svcs[1].specs = []vhAdvSpec{{len4: 24, len6: 128, node: true, peers: 1}, {len4: 32, len6: 128, node: true, peers: 2}}
		vr.Assert(c.SetBalancer(log.NewNopLogger(), svcs[1].name, svcs[1].ips, pool2, nil, nil) == nil, "SetBalancer failed")
	case 3:
		// two more peers are configured while the service is announced; the session to one of them
		// (symbolic, possibly none) cannot be started
		cfg2 := &config.Config{Peers: map[string]*config.Peer{}}
		for n, p := range cfg.Peers {
			cfg2.Peers[n] = p
		}
		for i := npeers; i < npeers+2; i++ {
			n := []string{"peer0", "peer1", "peer2", "peer3"}[i]
			cfg2.Peers[n] = &config.Peer{Name: n, MyASN: 64512, ASN: uint32(64600 + i), Addr: net.IP{192, 168, 1, byte(1 + i)}, Port: 179}
			peerNames = append(peerNames, n)
		}
		rec.fail = []string{"", peerNames[npeers], peerNames[npeers+1]}[vr.Choose(3)]
		_ = c.SetConfig(log.NewNopLogger(), cfg2) // whether the failure is reported is not the subject here
	}
	if step == 4 {
		// every peer is removed from the configuration while the service is announced; the service is
		// then processed again (re-sync): it is advertised to nobody
		vr.Assert(c.SetConfig(log.NewNopLogger(), &config.Config{Peers: map[string]*config.Peer{}}) == nil, "SetConfig without peers failed")
		for _, pn := range peerNames {
			vr.Assert(rec.sessions[pn] != nil && (rec.sessions[pn].closed || len(rec.sessions[pn].last) == 0), "routes are still offered to a peer that was removed from the configuration")
		}
		vr.Assert(c.SetBalancer(log.NewNopLogger(), svcs[0].name, svcs[0].ips, pool, nil, nil) == nil, "SetBalancer failed")
		vr.Assert(c.PeersForService(svcs[0].name).Len() == 0, "a Service is reported as advertised to a peer that no longer has a session")
		vr.Reach("routes checked")
		return
	}
	// oracle per peer
	for pi, pn := range peerNames {
		sess := rec.sessions[pn]
		if pn == rec.fail {
			vr.Assert(sess == nil, "a session exists although it could not be started")
			continue
		}
		vr.Assert(sess != nil && !sess.closed, "no live session for a configured peer")
		if sess == nil {
			continue
		}
		type exp struct {
			ip   net.IP
			n    int
			spec vhAdvSpec
			svc  int
		}
		var want []exp
		for si, sv := range svcs {
			if !sv.on {
				continue
			}
			for _, ip := range sv.ips {
				own := specs
				if sv.specs != nil {
					own = sv.specs
				}
				for _, s := range own {
					named := s.peers == 0 || s.peers&(1<<uint(pi)) != 0
					if !named {
						continue
					}
					n := s.len4
					if ip.To4() == nil {
						n = s.len6
					}
					ip2 := ip
					if ip4 := ip.To4(); ip4 != nil {
						ip2 = ip4
					}
					want = append(want, exp{ip2, n, s, si})
				}
			}
		}
		// every expected route (of an advertisement selecting this node) was offered
		for _, e := range want {
			found := false
			for _, ad := range sess.last {
				found = vr.Or(found, vhRouteIs(ad, e.ip, e.n, e.spec))
			}
			vr.Assert(vr.Implies(e.spec.node, found), "a route the configuration implies was not offered to the peer")
		}
		// nothing else was offered
		for _, ad := range sess.last {
			ok := false
			for _, e := range want {
				ok = vr.Or(ok, vr.And(e.spec.node, vhRouteIs(ad, e.ip, e.n, e.spec)))
			}
			vr.Assert(ok, "a route was offered to a peer that the configuration does not imply (wrong peer, prefix or attributes)")
		}
		// PeersForService: offered at least one of the service's prefixes
		for si, sv := range svcs {
			listed := c.PeersForService(sv.name).Has(pn)
			offered := false
			if sv.on {
				for _, e := range want {
					if e.svc != si {
						continue
					}
					offered = vr.Or(offered, e.spec.node)
				}
				// a prefix equal to one of this service's prefixes offered on behalf of another service counts too
				for _, mine := range c.svcAds[sv.name] {
					for _, ad := range sess.last {
						offered = vr.Or(offered, ad.Prefix.String() == mine.Prefix.String())
					}
				}
			}
			vr.Assert(listed == offered, "a Service is reported as advertised to a peer that is not offered any of its prefixes (or the reverse)")
		}
	}
	vr.Reach("routes checked")
}
