//go:build verif

package main

import (
	"net"

	"github.com/go-kit/log"
	"go.universe.tf/metallb/internal/bgp"
	"go.universe.tf/metallb/internal/config"
	"go.universe.tf/metallb/internal/k8s/controllers"
	"go.universe.tf/metallb/internal/layer2"
	"go.universe.tf/metallb/internal/speakerlist"
	vr "go.universe.tf/metallb/internal/verifrt"
	v1 "k8s.io/api/core/v1"
	discovery "k8s.io/api/discovery/v1"
	metav1 "k8s.io/apimachinery/pkg/apis/meta/v1"
	"k8s.io/apimachinery/pkg/types"
	"k8s.io/apimachinery/pkg/util/sets"
)

func init() {
	verifHarnesses["VerifSpeakerConverge"] = func(a []int) { VerifSpeakerConverge(a[0]) }
}

type vhNopClient struct{}

func (vhNopClient) UpdateStatus(*v1.Service) error                  { return nil }
func (vhNopClient) Infof(*v1.Service, string, string, ...interface{})  {}
func (vhNopClient) Errorf(*v1.Service, string, string, ...interface{}) {}

// vhSpeaker is one speaker instance with its observable back ends.
type vhSpeaker struct {
	c   *controller
	rec *vhRecManager
	ann *layer2.Announce
}

func vhNewSpeaker(disabledML, ignoreExclude bool) *vhSpeaker {
	rec := &vhRecManager{sessions: map[string]*vhRecSession{}}
	ann := layer2.VerifNewAnnounce([]string{"eth0", "eth1"})
	sl := vhFakeSL{speakerlist.SpeakerListInfo{Nodes: map[string]bool{vhMe: true}}}
	if disabledML {
		sl = vhFakeSL{speakerlist.SpeakerListInfo{Disabled: true}}
	}
	bc := &bgpController{logger: log.NewNopLogger(), myNode: vhMe, svcAds: map[string][]*bgp.Advertisement{},
		activeAds: map[string]sets.Set[string]{}, sessionManager: rec, adsChangedCallback: func(string) {}, ignoreExcludeLB: ignoreExclude}
	lc := &layer2Controller{announcer: ann, myNode: vhMe, sList: sl, onStatusChange: func(types.NamespacedName) {}, ignoreExcludeLB: ignoreExclude}
	c := &controller{myNode: vhMe, client: vhNopClient{},
		protocolHandlers: map[config.Proto]Protocol{config.BGP: bc, config.Layer2: lc},
		announced:        map[config.Proto]map[string]bool{config.BGP: {}, config.Layer2: {}},
		svcIPs:           map[string][]net.IP{}, protocols: []config.Proto{config.BGP, config.Layer2},
		nodes: map[string]*v1.Node{}}
	return &vhSpeaker{c: c, rec: rec, ann: ann}
}

// vhWorld is a cluster state as a speaker sees it.
type vhWorld struct {
	cfg        *config.Config
	nodes      []*v1.Node
	names      []string
	svcs       []*v1.Service // nil = deleted
	eps        [][]discovery.EndpointSlice
	disabledML bool
	ignoreExcl bool
}

func vhCfg(l2Ifs []string, l2AllIfs bool, l2Me, bgpMe bool) *config.Config {
	_, c4, _ := net.ParseCIDR("10.0.0.0/24")
	_, c6, _ := net.ParseCIDR("fd00::/120")
	pool := &config.Pool{Name: "pool", CIDR: []*net.IPNet{c4, c6}, AutoAssign: true,
		L2Advertisements:  []*config.L2Advertisement{{Nodes: map[string]bool{vhMe: l2Me, vhOther: true}, Interfaces: l2Ifs, AllInterfaces: l2AllIfs}},
		BGPAdvertisements: []*config.BGPAdvertisement{{AggregationLength: 32, AggregationLengthV6: 128, Nodes: map[string]bool{vhMe: bgpMe, vhOther: true}}}}
	return &config.Config{
		Peers: map[string]*config.Peer{"peer0": {Name: "peer0", MyASN: 64512, ASN: 64600, Addr: net.IP{192, 168, 1, 1}, Port: 179}},
		Pools: &config.Pools{ByName: map[string]*config.Pool{"pool": pool}}}
}

func vhNode(name string, unavailable, excluded bool) *v1.Node {
	n := &v1.Node{ObjectMeta: metav1.ObjectMeta{Name: name, Labels: map[string]string{"kubernetes.io/hostname": name}}}
	st := v1.ConditionFalse
	if unavailable {
		st = v1.ConditionTrue
	}
	n.Status.Conditions = []v1.NodeCondition{{Type: v1.NodeNetworkUnavailable, Status: st}}
	if excluded {
		n.Labels[v1.LabelNodeExcludeBalancers] = ""
	}
	return n
}

func vhLBService(name string, ips ...string) *v1.Service {
	s := &v1.Service{ObjectMeta: metav1.ObjectMeta{Namespace: "ns", Name: name}, Spec: v1.ServiceSpec{Type: v1.ServiceTypeLoadBalancer, ExternalTrafficPolicy: v1.ServiceExternalTrafficPolicyTypeCluster}}
	for _, ip := range ips {
		s.Status.LoadBalancer.Ingress = append(s.Status.LoadBalancer.Ingress, v1.LoadBalancerIngress{IP: ip})
	}
	return s
}

func vhEps(ready bool) []discovery.EndpointSlice {
	me := vhMe
	return []discovery.EndpointSlice{{Endpoints: []discovery.Endpoint{{Addresses: []string{"10.9.0.1"}, NodeName: &me, Conditions: discovery.EndpointConditions{Ready: &ready}}}}}
}

// fresh starts a speaker on the world: configuration, nodes, then every service.
func (w *vhWorld) fresh() *vhSpeaker {
	s := vhNewSpeaker(w.disabledML, w.ignoreExcl)
	vr.Assume(s.c.SetConfig(log.NewNopLogger(), w.cfg) != controllers.SyncStateError)
	for _, n := range w.nodes {
		vr.Assume(s.c.SetNode(log.NewNopLogger(), n) != controllers.SyncStateError)
	}
	w.resync(s)
	return s
}

// resync is the full re-sync the reconcilers perform on SyncStateReprocessAll.
func (w *vhWorld) resync(s *vhSpeaker) {
	for i, name := range w.names {
		vr.Assume(s.c.SetBalancer(log.NewNopLogger(), name, w.svcs[i], w.eps[i]) != controllers.SyncStateError)
	}
}

func vhAdsEqualAsSets(a, b []*bgp.Advertisement) bool {
	ok := true
	for _, x := range a {
		f := false
		for _, y := range b {
			f = vr.Or(f, x.Equal(y))
		}
		ok = vr.And(ok, f)
	}
	for _, y := range b {
		f := false
		for _, x := range a {
			f = vr.Or(f, x.Equal(y))
		}
		ok = vr.And(ok, f)
	}
	return ok
}

// vhSameAnnouncements: what the two speakers announce is the same.
func vhSameAnnouncements(l, r *vhSpeaker) (bool, bool) {
	li, lr := l.ann.VerifState()
	ri, rr := r.ann.VerifState()
	l2 := vr.And(vr.SameState(li, ri), vr.SameState(lr, rr))
	bgpOK := true
	for name, ls := range l.rec.sessions {
		rs := r.rec.sessions[name]
		if rs == nil {
			bgpOK = false
			continue
		}
		bgpOK = vr.And(bgpOK, vhAdsEqualAsSets(ls.last, rs.last))
	}
	if len(l.rec.sessions) != len(r.rec.sessions) {
		bgpOK = false
	}
	return l2, bgpOK
}

// VerifSpeakerConverge (C09): after an event (and the full re-sync it requests) a speaker with history
// announces exactly what a freshly started speaker announces for the resulting cluster state.
func VerifSpeakerConverge(event int) {
	w := &vhWorld{disabledML: vr.Bool(), ignoreExcl: vr.Bool()}
	l2me, bgpme := vr.Bool(), vr.Bool()
	w.cfg = vhCfg([]string{"eth0"}, vr.Bool(), l2me, bgpme)
	w.nodes = []*v1.Node{vhNode(vhMe, false, false), vhNode(vhOther, false, false)}
	if event == 3 {
		w.nodes[0] = vhNode(vhMe, vr.Bool(), vr.Bool())
	}
	ipA := net.IP{10, 0, 0, vr.Byte()}
	ipB := net.IP{10, 0, 0, vr.Byte()}
	w.names = []string{"ns/a", "ns/b"}
	w.svcs = []*v1.Service{vhLBService("a", ipA.String()), vhLBService("b", ipB.String())}
	w.eps = [][]discovery.EndpointSlice{vhEps(true), vhEps(vr.Bool())}
	if vr.Bool() {
		w.svcs[0].Spec.ExternalTrafficPolicy = v1.ServiceExternalTrafficPolicyTypeLocal
	}
	if event == 4 {
		// the node object of this node has not been seen yet when the services arrive
		w.nodes = w.nodes[1:]
	}
	if event == 7 {
		w.svcs[0] = vhLBService("a", ipA.String(), "fd00::5")
	}
	if event == 10 {
		// service b never gets announced by this speaker (no ready endpoint) and lives in the upper half
		// of the pool, service a in the lower half
		w.eps[1] = vhEps(false)
		vr.Assume(ipA[3] < 128)
		vr.Assume(ipB[3] >= 128)
	}
	if event == 8 {
		// dual-stack with the IPv6 address listed first (the election key is the first address)
		w.svcs[0] = vhLBService("a", "fd00::5", ipA.String())
	}
	L := w.fresh()
	vr.Reach("history speaker started")

	// one cluster change, delivered as the event(s) it produces
	st := controllers.SyncStateSuccess
	lg := log.NewNopLogger()
	missingIf := false
	switch event {
	case 0: // status address of service a changes
		ipC := net.IP{10, 0, 0, vr.Byte()}
		w.svcs[0] = vhLBService("a", ipC.String())
		w.svcs[0].Spec.ExternalTrafficPolicy = v1.ServiceExternalTrafficPolicyTypeCluster
		st = L.c.SetBalancer(lg, w.names[0], w.svcs[0], w.eps[0])
	case 1: // service a deleted, or stops being a LoadBalancer, or loses its address
		switch vr.Choose(3) {
		case 0:
			w.svcs[0] = nil
		case 1:
			w.svcs[0] = vhLBService("a", ipA.String())
			w.svcs[0].Spec.Type = v1.ServiceTypeClusterIP
		case 2:
			w.svcs[0] = vhLBService("a")
		}
		st = L.c.SetBalancer(lg, w.names[0], w.svcs[0], w.eps[0])
	case 2: // endpoints of service a change readiness
		w.eps[0] = vhEps(vr.Bool())
		st = L.c.SetBalancer(lg, w.names[0], w.svcs[0], w.eps[0])
	case 3: // this node's conditions / labels change (from an arbitrary earlier state)
		w.nodes[0] = vhNode(vhMe, vr.Bool(), vr.Bool())
		st = L.c.SetNode(lg, w.nodes[0])
	case 4: // first sighting of this node's object
		me := vhNode(vhMe, vr.Bool(), vr.Bool())
		w.nodes = append([]*v1.Node{me}, w.nodes...)
		st = L.c.SetNode(lg, me)
	case 5: // configuration change: the L2 advertisement switches interfaces / node selection
		ifs := []string{"eth1"}
		if vr.Bool() {
			ifs = []string{"eth7"} // an interface this node does not have
			missingIf = true
		}
		w.cfg = vhCfg(ifs, false, vr.Bool(), vr.Bool())
		st = L.c.SetConfig(lg, w.cfg)
	case 6: // configuration change: the BGP advertisement stops / starts selecting this node
		w.cfg = vhCfg([]string{"eth0"}, false, l2me, vr.Bool())
		st = L.c.SetConfig(lg, w.cfg)
	case 10: // service b is deleted, then the pool shrinks to the half that holds service a
		w.svcs[1] = nil
		if L.c.SetBalancer(lg, w.names[1], nil, w.eps[1]) == controllers.SyncStateReprocessAll {
			w.resync(L)
		}
		w.cfg = vhCfg([]string{"eth0"}, false, l2me, bgpme)
		_, half, _ := net.ParseCIDR("10.0.0.0/25")
		w.cfg.Pools.ByName["pool"].CIDR[0] = half
		st = L.c.SetConfig(lg, w.cfg)
		vr.Assert(st != controllers.SyncStateError, "a configuration that covers every existing Service was refused")
	case 9: // the OTHER node's conditions / labels change (the layer-2 election depends on every node)
		w.nodes[1] = vhNode(vhOther, vr.Bool(), vr.Bool())
		st = L.c.SetNode(lg, w.nodes[1])
	case 8: // the dual-stack service is simply delivered once more (an update that changes nothing)
		st = L.c.SetBalancer(lg, w.names[0], w.svcs[0], w.eps[0])
	case 7: // a dual-stack service keeps only one of its addresses
		w.svcs[0] = vhLBService("a", ipA.String())
		st = L.c.SetBalancer(lg, w.names[0], w.svcs[0], w.eps[0])
	}
	vr.Assume(st != controllers.SyncStateError && st != controllers.SyncStateErrorNoRetry)
	if st == controllers.SyncStateReprocessAll {
		w.resync(L)
		vr.Reach("re-sync requested")
	}
	R := w.fresh()
	l2ok, bgpok := vhSameAnnouncements(L, R)
	if event == 4 && w.disabledML {
		// with membership tracking disabled the candidate set is the set of known nodes: the first
		// sighting of an available node changes it, but no re-sync is requested
		vr.Finding("F7b-first-sighting-with-memberlist-disabled")
	}
	if missingIf {
		vr.Finding("F8-l2-stale-advertisement-on-missing-interface")
	}
	// (the two known findings concern the layer-2 comparison only)
	vr.Assert(l2ok, "layer-2 announcements (addresses / interfaces / reference counts) differ from a freshly started speaker's")
	vr.Finding("")
	vr.Assert(bgpok, "BGP routes offered to a peer differ from a freshly started speaker's")
	vr.Reach("compared with fresh speaker")
}
