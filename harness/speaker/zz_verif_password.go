//go:build verif

package main

import (
	"go.universe.tf/metallb/internal/config"
	vr "go.universe.tf/metallb/internal/verifrt"
	v1 "k8s.io/api/core/v1"
)

func init() {
	verifHarnesses["VerifPasswordForSession"] = func(a []int) { VerifPasswordForSession() }
}

// VerifPasswordForSession (C15): what a peer's session is given as credentials. The peer carries an
// inline password, a password read from a secret (SecretPassword) or a secret reference. Native and FRR
// mode get the clear-text password from whichever source; frr-k8s gets the inline password and the
// reference untouched when secrets are passed through, and the clear-text password without reference when
// they are converted. Never both a password and a reference.
func VerifPasswordForSession() {
	pw := vr.PickString("", "inline-pw")
	sp := vr.PickString("", "from-secret")
	ref := vr.PickString("", "secret-name")
	vr.Assume(!(pw != "" && sp != "")) // rejected when the configuration is parsed
	vr.Assume(!(pw != "" && ref != "")) // rejected when the configuration is parsed
	vr.Assume((sp != "") == (ref != "") || sp == "") // a secret password comes with its reference
	cfg := &config.Peer{Name: "p", Password: pw, SecretPassword: sp, PasswordRef: v1.SecretReference{Name: ref}}
	kind := []bgpImplementation{bgpNative, bgpFrr, bgpFrrK8s}[vr.Choose(3)]
	handling := []SecretHandling{SecretPassThrough, SecretConvert}[vr.Choose(2)]
	gotPw, gotRef := passwordForSession(cfg, kind, handling)
	clear := pw
	if sp != "" {
		clear = sp
	}
	if kind == bgpFrrK8s && handling == SecretPassThrough {
		vr.Assert(gotPw == pw && gotRef.Name == ref, "pass-through must hand over the inline password and the secret reference as configured")
	} else {
		vr.Assert(gotPw == clear && gotRef.Name == "", "the session must get the clear-text password (inline or read from the secret) and no reference")
	}
	vr.Assert(!(gotPw != "" && gotRef.Name != ""), "both a password and a secret reference")
	vr.Reach("session credentials checked")
}
