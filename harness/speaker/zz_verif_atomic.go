//go:build verif

package main

import (
	"sync"

	"github.com/go-kit/log"
	"go.universe.tf/metallb/internal/config"
	"go.universe.tf/metallb/internal/k8s"
	"go.universe.tf/metallb/internal/k8s/controllers"
	vr "go.universe.tf/metallb/internal/verifrt"
	v1 "k8s.io/api/core/v1"
	discovery "k8s.io/api/discovery/v1"
	"k8s.io/apimachinery/pkg/types"
)

func init() {
	verifHarnesses["VerifSpeakerHandlers"] = func(a []int) { VerifSpeakerHandlers(a[0]) }
}

// VerifSpeakerHandlers (C20): two events are delivered concurrently through the Listener wrappers
// while the status fetchers query the speaker; no data race (lockset), no deadlock or crash, and the
// result equals running the handlers one at a time in the order in which they took effect.
// scn selects the pair of events: 0 service+node, 1 service+config, 2 node+config, 3 two services.
func VerifSpeakerHandlers(scn int) {
	w := &vhWorld{disabledML: false}
	w.cfg = vhCfg([]string{"eth0"}, false, true, true)
	w.nodes = []*v1.Node{vhNode(vhMe, false, false), vhNode(vhOther, false, false)}
	w.names = []string{"ns/a", "ns/b"}
	w.svcs = []*v1.Service{vhLBService("a", "10.0.0.1"), vhLBService("b", "10.0.0.2")}
	w.eps = [][]discovery.EndpointSlice{vhEps(true), vhEps(true)}
	S := w.fresh()
	var order []string
	var omu sync.Mutex
	note := func(s string) {
		omu.Lock()
		order = append(order, s)
		omu.Unlock()
	}
	lst := &k8s.Listener{
		ServiceChanged: func(l log.Logger, n string, s *v1.Service, e []discovery.EndpointSlice) controllers.SyncState {
			if s == w.svcs[0] {
				note("svc:ns/a:resync")
			} else {
				note("svc:" + n)
			}
			return S.c.SetBalancer(l, n, s, e)
		},
		ConfigChanged: func(l log.Logger, c *config.Config) controllers.SyncState { note("cfg"); return S.c.SetConfig(l, c) },
		NodeChanged:   func(l log.Logger, n *v1.Node) controllers.SyncState { note("node"); return S.c.SetNode(l, n) },
	}
	// the events
	newA := vhLBService("a", "10.0.0.7")
	newB := vhLBService("b", "10.0.0.8")
	newNode := vhNode(vhMe, vr.Bool(), false)
	newCfg := vhCfg([]string{"eth1"}, false, true, vr.Bool())
	lg := log.NewNopLogger()
	evSvcA := func() { lst.ServiceHandler(lg, "ns/a", newA, w.eps[0]) }
	evSvcB := func() { lst.ServiceHandler(lg, "ns/b", newB, w.eps[1]) }
	evNode := func() { lst.NodeHandler(lg, newNode) }
	evCfg := func() { lst.ConfigHandler(lg, newCfg) }
	var t1, t2 func()
	switch scn {
	case 0:
		t1, t2 = evSvcA, evNode
	case 1:
		t1, t2 = evSvcA, evCfg
	case 2:
		t1, t2 = evNode, evCfg
	case 3:
		t1, t2 = evSvcA, evSvcB
	default:
		// a configuration change followed by the re-sync of service a it requests (same address, other
		// interfaces: the announcer replaces the advertisement in place), concurrently with a node event
		t1 = func() {
			evCfg()
			lst.ServiceHandler(lg, "ns/a", w.svcs[0], w.eps[0])
		}
		t2 = evNode
	}
	bc := S.c.protocolHandlers[config.BGP].(*bgpController)
	vr.Track(S.c)
	vr.Track(S.ann)
	done := 0
	var dmu sync.Mutex
	fin := func() { dmu.Lock(); done++; dmu.Unlock() }
	go func() { t1(); fin() }()
	go func() { t2(); fin() }()
	go func() { // status fetchers: per-service BGP peers and layer-2 announcement status
		peers := bc.PeersForService("ns/a")
		n := 0
		for range peers {
			n++
		}
		st := S.ann.GetStatus(types.NamespacedName{Namespace: "ns", Name: "a"})
		for i := range st {
			_ = st[i].IsAllInterfaces()
			_ = st[i].GetInterfaces()
		}
		fin()
	}()
	for k := 0; k < 6; k++ {
		vr.Yield()
	}
	dmu.Lock()
	vr.Assert(done == 3, "a handler or status query did not finish")
	dmu.Unlock()
	if rep := vr.RaceReport(); rep != "" {
		vr.Finding("F10-getstatus-returns-internal-slice")
	}
	vr.Assert(vr.RaceFree(), "data race: speaker state is accessed concurrently without a common lock")
	vr.Finding("")
	vr.StopTracking()
	// serial replay in the order in which the handlers took effect
	R := w.fresh()
	for _, o := range order {
		switch o {
		case "svc:ns/a":
			R.c.SetBalancer(lg, "ns/a", newA, w.eps[0])
		case "svc:ns/b":
			R.c.SetBalancer(lg, "ns/b", newB, w.eps[1])
		case "node":
			R.c.SetNode(lg, newNode)
		case "cfg":
			R.c.SetConfig(lg, newCfg)
		case "svc:ns/a:resync":
			R.c.SetBalancer(lg, "ns/a", w.svcs[0], w.eps[0])
		}
	}
	l2ok, bgpok := vhSameAnnouncements(S, R)
	vr.Assert(vr.And(l2ok, bgpok), "concurrent delivery produced a state that no serial order of the handlers produces")
	vr.Reach("handlers serialised")
}
