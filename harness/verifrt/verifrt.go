//go:build verif

// Package verifrt is the harness language of the gosx symbolic executor.
// Under the engine every function here is intercepted; the bodies below are the
// native implementation used to replay solver models against the real build.
package verifrt

import (
	"encoding/json"
	"fmt"
	"os"
	"reflect"
	"runtime"
	"strconv"
	"sync/atomic"
	"testing"
	"time"
)

type NondetVal struct {
	K string `json:"k"`
	N string `json:"n"`
	V uint64 `json:"v"`
	F bool   `json:"f"` // free: only feeds hash / string-order abstractions; may be re-chosen natively
}

type Run struct {
	ID      string            `json:"id"`
	Fn      string            `json:"fn"`
	Args    []int64           `json:"args"`
	Nondet  []NondetVal       `json:"nondet"`
	Expect  string            `json:"expect"`
	Observe map[string]string `json:"observe,omitempty"`
}

type File struct {
	Runs []Run `json:"runs"`
}

type assumeFailed struct{}
type diverged struct{ why string }
type assertFailed struct{ msg string }
type stop struct{}

var cur struct {
	vals    []NondetVal
	pos     int
	observe map[string]string
}

// Unsupported ends the run as inconclusive: the harness met something its oracle cannot judge (for example
// a construct in generated text that its interpreter does not know). Never a violation.
func Unsupported(what string) { panic(diverged{"unsupported by the harness oracle: " + what}) }

// Observe hands a text computed by the code under test to the cross-check of the engine's string
// encoding: under the engine the text (possibly symbolic) is recorded and, for sampled paths, evaluated
// under the path's model; the native replay of the sample must compute exactly that text.
func Observe(label, text string) {
	if want, ok := cur.observe[label]; ok && want != text {
		panic(diverged{fmt.Sprintf("observation %q differs: engine %q, native %q", label, clip(want, text), clip(text, want))})
	}
}

// clip shows the neighbourhood of the first difference between a and b.
func clip(a, b string) string {
	i := 0
	for i < len(a) && i < len(b) && a[i] == b[i] {
		i++
	}
	lo, hi := i-40, i+40
	if lo < 0 {
		lo = 0
	}
	if hi > len(a) {
		hi = len(a)
	}
	return a[lo:hi]
}

// engineOnly kinds record decisions of the engine's scheduler / map iteration model; the native run
// cannot consume them.
func engineOnly(k string) bool {
	return k == "sched" || k == "select" || (len(k) >= 8 && k[:8] == "maporder")
}

func next(kind string) uint64 {
	for cur.pos < len(cur.vals) && engineOnly(cur.vals[cur.pos].K) {
		cur.pos++
	}
	if cur.pos >= len(cur.vals) {
		// values created after the last model fetch are unconstrained: default 0
		cur.pos++
		return 0
	}
	v := cur.vals[cur.pos]
	cur.pos++
	if v.K != kind {
		panic(diverged{fmt.Sprintf("nondet #%d: recorded %s, native run asks %s", cur.pos-1, v.K, kind)})
	}
	return v.V
}

func Bool() bool     { return next("Bool") != 0 }
func Byte() byte     { return byte(next("Byte")) }
func Uint16() uint16 { return uint16(next("Uint16")) }
func Uint32() uint32 { return uint32(next("Uint32")) }
func Uint64() uint64 { return next("Uint64") }

// Int returns an arbitrary int in [lo,hi].
func Int(lo, hi int) int {
	v := int(int64(next("Int")))
	if v < lo || v > hi {
		panic(assumeFailed{})
	}
	return v
}

// Choose returns an arbitrary int in [0,n); the engine forks per value (the result is concrete).
func Choose(n int) int {
	v := int(int64(next("Choose")))
	if v < 0 || v >= n {
		panic(assumeFailed{})
	}
	return v
}

// PickString returns one of the options (the engine keeps the choice symbolic: no fork).
func PickString(opts ...string) string {
	if len(opts) == 1 {
		return opts[0]
	}
	v := int(next("Pick"))
	if v < 0 || v >= len(opts) {
		panic(assumeFailed{})
	}
	return opts[v]
}

func Assume(c bool) {
	if !c {
		panic(assumeFailed{})
	}
}

// Assert: natively a failing assertion on the replay goroutine panics; on another goroutine (a
// callback run by the code under test) it is recorded, that goroutine ends, and the replay goroutine
// reports it at its next harness call.
func Assert(c bool, msg string) {
	if c {
		return
	}
	if gid() != mainGID.Load() {
		sideFailure.CompareAndSwap(nil, &msg)
		runtime.Goexit()
	}
	panic(assertFailed{msg})
}

var mainGID atomic.Int64
var sideFailure atomic.Pointer[string]

func gid() int64 {
	var buf [64]byte
	n := runtime.Stack(buf[:], false)
	// "goroutine 123 [running]:"
	var id int64
	for _, c := range buf[len("goroutine "):n] {
		if c < '0' || c > '9' {
			break
		}
		id = id*10 + int64(c-'0')
	}
	return id
}

func checkSide() {
	if m := sideFailure.Load(); m != nil && gid() == mainGID.Load() {
		panic(assertFailed{*m})
	}
}

func Reach(label string) {}
func Note(s string)      {}
func Finding(id string)  {}
func MapOrder(mode int)  {}
func Stop()              { panic(stop{}) }
func Symbolic() bool     { return false }

// RaceRetry: the engine replays an unconfirmed counterexample a second time with VERIF_RACE_RETRY set;
// native harnesses with real goroutines may then force the less likely of two racing orders (the engine
// explores both; natively the scheduler almost always picks one). Always false under the engine.
func RaceRetry() bool { return os.Getenv("VERIF_RACE_RETRY") != "" }

// Non-forking boolean connectives (the engine builds one term instead of branching).
func And(a, b bool) bool     { return a && b }
func Or(a, b bool) bool      { return a || b }
func Not(a bool) bool        { return !a }
func Implies(a, b bool) bool { return !a || b }
func Iff(a, b bool) bool     { return a == b }

func IteInt(c bool, a, b int) int {
	if c {
		return a
	}
	return b
}
func IteU8(c bool, a, b uint8) uint8 {
	if c {
		return a
	}
	return b
}
func IteU16(c bool, a, b uint16) uint16 {
	if c {
		return a
	}
	return b
}
func IteU32(c bool, a, b uint32) uint32 {
	if c {
		return a
	}
	return b
}
func IteU64(c bool, a, b uint64) uint64 {
	if c {
		return a
	}
	return b
}
func IteBool(c bool, a, b bool) bool {
	if c {
		return a
	}
	return b
}

// SameState: structural equality following pointers, ignoring function values and pointer identity,
// with an absent map entry equal to a present "empty" one (nil, zero, empty container).
func SameState(a, b any) bool {
	return sameState(reflect.ValueOf(a), reflect.ValueOf(b), 0)
}

func emptyState(v reflect.Value) bool {
	switch v.Kind() {
	case reflect.Map:
		if v.IsNil() {
			return true
		}
		it := v.MapRange()
		for it.Next() {
			if !emptyState(it.Value()) {
				return false
			}
		}
		return true
	case reflect.Slice:
		return v.Len() == 0
	case reflect.Pointer, reflect.Interface:
		return v.IsNil()
	case reflect.Bool:
		return !v.Bool()
	case reflect.Int, reflect.Int8, reflect.Int16, reflect.Int32, reflect.Int64:
		return v.Int() == 0
	case reflect.Uint, reflect.Uint8, reflect.Uint16, reflect.Uint32, reflect.Uint64, reflect.Uintptr:
		return v.Uint() == 0
	case reflect.String:
		return v.Len() == 0
	}
	return false
}

func mapIncluded(a, b reflect.Value, d int) bool {
	if a.IsNil() {
		return true
	}
	it := a.MapRange()
	for it.Next() {
		if emptyState(it.Value()) {
			continue
		}
		if b.IsNil() {
			return false
		}
		// keys are compared with == semantics through MapIndex
		bv := b.MapIndex(it.Key())
		if !bv.IsValid() || !sameState(it.Value(), bv, d+1) {
			return false
		}
	}
	return true
}

func sameState(a, b reflect.Value, d int) bool {
	if d > 14 {
		panic("SameState: depth")
	}
	if a.IsValid() != b.IsValid() {
		return false
	}
	if !a.IsValid() {
		return true
	}
	if a.Type() != b.Type() {
		return false
	}
	switch a.Kind() {
	case reflect.Bool:
		return a.Bool() == b.Bool()
	case reflect.Int, reflect.Int8, reflect.Int16, reflect.Int32, reflect.Int64:
		return a.Int() == b.Int()
	case reflect.Uint, reflect.Uint8, reflect.Uint16, reflect.Uint32, reflect.Uint64, reflect.Uintptr:
		return a.Uint() == b.Uint()
	case reflect.Float32, reflect.Float64:
		return a.Float() == b.Float()
	case reflect.String:
		return a.String() == b.String()
	case reflect.Pointer:
		if a.IsNil() || b.IsNil() {
			return a.IsNil() && b.IsNil()
		}
		if a.Pointer() == b.Pointer() {
			return true
		}
		return sameState(a.Elem(), b.Elem(), d+1)
	case reflect.Interface:
		if a.IsNil() || b.IsNil() {
			return a.IsNil() && b.IsNil()
		}
		return sameState(a.Elem(), b.Elem(), d+1)
	case reflect.Struct:
		for i := 0; i < a.NumField(); i++ {
			if !sameState(a.Field(i), b.Field(i), d+1) {
				return false
			}
		}
		return true
	case reflect.Array:
		for i := 0; i < a.Len(); i++ {
			if !sameState(a.Index(i), b.Index(i), d+1) {
				return false
			}
		}
		return true
	case reflect.Slice:
		if a.Len() != b.Len() {
			return false
		}
		for i := 0; i < a.Len(); i++ {
			if !sameState(a.Index(i), b.Index(i), d+1) {
				return false
			}
		}
		return true
	case reflect.Map:
		return mapIncluded(a, b, d) && mapIncluded(b, a, d)
	case reflect.Func, reflect.Chan:
		return true
	}
	panic("SameState: unsupported kind " + a.Kind().String())
}

// Yield lets every other goroutine run until it blocks (natively: a short sleep).
func Yield() { time.Sleep(time.Duration(timeScale) * 3 * time.Millisecond); checkSide() }

// timeScale (VERIF_TIMESCALE) slows the native harness clock for replays on a loaded machine.
var timeScale = envScale()

func envScale() int {
	n, err := strconv.Atoi(os.Getenv("VERIF_TIMESCALE"))
	if err != nil || n < 1 {
		return 1
	}
	return n
}

// TimerDuration is the duration harnesses give to the timers of the code under test; natively
// FireTimer waits long enough for such a timer to expire. Under the engine timers fire only when the
// harness says so.
var TimerDuration = time.Duration(timeScale) * 15 * time.Millisecond

func TimerPending() bool { return true }
func FireTimer() bool    { time.Sleep(3 * TimerDuration); checkSide(); return true }

// WakeSleepers lets goroutines blocked in time.Sleep continue (natively: nothing to do, time passes).
func WakeSleepers() {}

// Track registers an object graph for the engine's lockset (data race) analysis; RaceFree reports the result.
func Track(obj any)      {}
func StopTracking()      {}
func RaceFree() bool     { return true }
func RaceReport() string { return "" }

const (
	OrderInsertion = 0
	OrderFwdRev    = 1
	OrderAll       = 2
	OrderRotate    = 3
)

// RunReplay is the native driver: it runs every recorded run of $VERIF_REPLAY through table.
func RunReplay(t *testing.T, table map[string]func(a []int)) {
	path := os.Getenv("VERIF_REPLAY")
	if path == "" {
		t.Skip("VERIF_REPLAY not set")
	}
	b, err := os.ReadFile(path)
	if err != nil {
		t.Fatal(err)
	}
	var f File
	if err := json.Unmarshal(b, &f); err != nil {
		t.Fatal(err)
	}
	for _, r := range f.Runs {
		fn := table[r.Fn]
		if fn == nil {
			fmt.Printf("VERIF-RUN %s DIVERGED unknown harness %s\n", r.ID, r.Fn)
			continue
		}
		args := make([]int, len(r.Args))
		for i, a := range r.Args {
			args[i] = int(a)
		}
		cur.observe = r.Observe
		res := runOne(fn, args, r.Nondet)
		// map iteration order cannot be forced natively: repeat until the recorded divergence shows up
		if r.Expect == "violation" && res == "PASSED" && (usesMapOrder(r.Nondet) || hasFree(r.Nondet)) {
			// The engine abstracts SHA-256 and string order; the values of inputs that only feed those
			// abstractions are re-chosen until the real functions realise the recorded behaviour.
			seed := uint64(88172645463325252)
			vals := append([]NondetVal(nil), r.Nondet...)
			for i := 0; i < 6000 && res == "PASSED"; i++ {
				if i%3 == 2 {
					for j := range vals {
						if vals[j].F {
							seed ^= seed << 13
							seed ^= seed >> 7
							seed ^= seed << 17
							switch vals[j].K {
							case "Byte":
								vals[j].V = seed & 0xff
							case "Uint16":
								vals[j].V = seed & 0xffff
							case "Uint32":
								vals[j].V = seed & 0xffffffff
							}
						}
					}
				}
				res = runOne(fn, args, vals)
			}
		}
		fmt.Printf("VERIF-RUN %s %s\n", r.ID, res)
	}
}

func hasFree(vals []NondetVal) bool {
	for _, v := range vals {
		if v.F {
			return true
		}
	}
	return false
}

func usesMapOrder(vals []NondetVal) bool {
	for _, v := range vals {
		if len(v.K) >= 8 && v.K[:8] == "maporder" {
			return true
		}
	}
	return false
}

func runOne(fn func([]int), args []int, vals []NondetVal) (res string) {
	cur.vals, cur.pos = vals, 0
	mainGID.Store(gid())
	sideFailure.Store(nil)
	defer func() {
		p := recover()
		switch p := p.(type) {
		case nil:
			res = "PASSED"
		case stop:
			res = "PASSED"
		case assumeFailed:
			res = "DIVERGED assumption false in native run"
		case diverged:
			res = "DIVERGED " + p.why
		case assertFailed:
			res = "CONFIRMED assertion failed: " + p.msg
		default:
			res = fmt.Sprintf("CONFIRMED panic: %v", p)
		}
	}()
	fn(args)
	checkSide()
	return
}
