package main

import (
	"go/types"
	"strings"
)

// encoding/binary.{Write,Read,Size} as typed codecs over engine values.

func binSize(t types.Type, v Value) (int, bool) {
	switch u := underlying(t).(type) {
	case *types.Basic:
		if u.Info()&types.IsBoolean != 0 {
			return 1, true
		}
		if u.Info()&types.IsInteger != 0 {
			if u.Kind() == types.Int || u.Kind() == types.Uint || u.Kind() == types.Uintptr {
				return 0, false
			}
			w, _ := intWidth(u)
			return int(w) / 8, true
		}
		if u.Info()&types.IsFloat != 0 {
			if u.Kind() == types.Float32 {
				return 4, true
			}
			return 8, true
		}
		return 0, false
	case *types.Array:
		n, ok := binSize(u.Elem(), nil)
		return n * int(u.Len()), ok
	case *types.Struct:
		sum := 0
		for i := 0; i < u.NumFields(); i++ {
			n, ok := binSize(u.Field(i).Type(), nil)
			if !ok {
				return 0, false
			}
			sum += n
		}
		return sum, true
	case *types.Slice:
		s, _ := v.(Slice)
		n, ok := binSize(u.Elem(), nil)
		return n * len(s), ok
	case *types.Pointer:
		if p, ok := v.(*Value); ok && p != nil {
			return binSize(u.Elem(), *p)
		}
		return binSize(u.Elem(), nil)
	}
	return 0, false
}

func isBigEndian(order Value) bool {
	itf, ok := order.(Iface)
	if !ok || itf.t == nil {
		return true
	}
	return strings.Contains(strings.ToLower(itf.t.String()), "bigendian")
}

func binEncode(in *Interp, out *[]Value, t types.Type, v Value, big bool) {
	switch u := underlying(t).(type) {
	case *types.Basic:
		if u.Info()&types.IsBoolean != 0 {
			*out = append(*out, Ite(v.(*Term), BV(8, 1), BV(8, 0)))
			return
		}
		if u.Info()&types.IsInteger != 0 {
			x := v.(*Term)
			n := int(x.sort) / 8
			for i := 0; i < n; i++ {
				k := i
				if big {
					k = n - 1 - i
				}
				*out = append(*out, Extract(x, k*8+7, k*8))
			}
			return
		}
		in.abort("unsupported: binary.Write of %s", t)
	case *types.Array:
		for _, e := range v.(Array) {
			binEncode(in, out, u.Elem(), e, big)
		}
	case *types.Slice:
		for _, e := range v.(Slice) {
			binEncode(in, out, u.Elem(), e, big)
		}
	case *types.Struct:
		s := v.(Struct)
		for i := 0; i < u.NumFields(); i++ {
			binEncode(in, out, u.Field(i).Type(), s[i], big)
		}
	case *types.Pointer:
		p := v.(*Value)
		binEncode(in, out, u.Elem(), *p, big)
	default:
		in.abort("unsupported: binary.Write of %s", t)
	}
}

func binDecode(in *Interp, buf []Value, pos *int, t types.Type, dst *Value, big bool) {
	switch u := underlying(t).(type) {
	case *types.Basic:
		if u.Info()&types.IsBoolean != 0 {
			*dst = Not(Eq(buf[*pos].(*Term), BV(8, 0)))
			*pos++
			return
		}
		if u.Info()&types.IsInteger != 0 {
			w, _ := intWidth(u)
			n := int(w) / 8
			var x *Term
			for i := 0; i < n; i++ {
				k := i
				if !big {
					k = n - 1 - i
				}
				b := buf[*pos+k].(*Term)
				if x == nil {
					x = b
				} else {
					x = Concat(x, b)
				}
			}
			*pos += n
			*dst = x
			return
		}
		in.abort("unsupported: binary.Read of %s", t)
	case *types.Array:
		a := (*dst).(Array)
		for i := range a {
			binDecode(in, buf, pos, u.Elem(), &a[i], big)
		}
	case *types.Slice:
		a := (*dst).(Slice)
		for i := range a {
			binDecode(in, buf, pos, u.Elem(), &a[i], big)
		}
	case *types.Struct:
		s := (*dst).(Struct)
		for i := 0; i < u.NumFields(); i++ {
			if u.Field(i).Name() == "_" {
				n, _ := binSize(u.Field(i).Type(), nil)
				*pos += n
				continue
			}
			binDecode(in, buf, pos, u.Field(i).Type(), &s[i], big)
		}
	default:
		in.abort("unsupported: binary.Read of %s", t)
	}
}

func intrBinaryWrite(in *Interp, fr *frame, a []Value) Value {
	w := a[0].(Iface)
	data := a[2].(Iface)
	if _, ok := binSize(data.t, data.v); !ok {
		return in.newError("binary.Write: invalid type", nil)
	}
	var out []Value
	binEncode(in, &out, data.t, data.v, isBigEndian(a[1]))
	r := in.invoke(fr, w, "Write", Slice(out))
	if t, ok := r.(Tuple); ok {
		return t[1]
	}
	return Iface{}
}

func intrBinaryRead(in *Interp, fr *frame, a []Value) Value {
	r := a[0].(Iface)
	data := a[2].(Iface)
	var elemT types.Type
	var dst *Value
	switch u := underlying(data.t).(type) {
	case *types.Pointer:
		elemT = u.Elem()
		dst = data.v.(*Value)
	case *types.Slice:
		elemT = data.t
		v := data.v
		dst = &v
	default:
		return in.newError("binary.Read: invalid type", nil)
	}
	n, ok := binSize(elemT, *dst)
	if !ok {
		return in.newError("binary.Read: invalid type", nil)
	}
	buf := make(Slice, n)
	for i := range buf {
		buf[i] = BV(8, 0)
	}
	res := in.call(fr, 0, in.pkgFunc("io", "ReadFull"), []Value{r, buf}).(Tuple)
	if e := res[1].(Iface); e.t != nil {
		return e
	}
	pos := 0
	binDecode(in, buf, &pos, elemT, dst, isBigEndian(a[1]))
	return Iface{}
}
