package main

import (
	"encoding/json"
	"flag"
	"fmt"
	"os"
	"path/filepath"
	"runtime"
	"runtime/pprof"
	"sort"
	"strings"
	"time"

	"golang.org/x/tools/go/packages"
	"golang.org/x/tools/go/ssa"
	"golang.org/x/tools/go/ssa/ssautil"
)

const modPath = "go.universe.tf/metallb"

type CaseSpec struct {
	Pkg  string    `json:"pkg"` // package path relative to the module root, e.g. internal/bgp/native
	Fn   string    `json:"fn"`
	Args [][]int64 `json:"args"` // cartesian product of the listed values per parameter
}

type Spec struct {
	Property     string                `json:"property"`
	Title        string                `json:"title"`
	Cases        map[string][]CaseSpec `json:"cases"`
	Bounds       map[string]string     `json:"bounds"`
	OutsideBound []string              `json:"outside_bound"`
	Assumptions  []string              `json:"assumptions"`
	ReachReq     []string              `json:"reach_required"`
	MaxInstr     int                   `json:"max_instr"`
	MaxDecisions int                   `json:"max_decisions"`
	MaxItems     int                   `json:"max_items"`
	Pure         []string              `json:"pure"`
	Validate     int                   `json:"validate_samples"`
	MaxPreempts  *int                  `json:"max_preempts"`
	Rule         string                `json:"rule"`
}

var (
	repoDir    = "/repo"
	verifDir   = "/verif"
	flagTrace  = flag.Bool("trace", false, "trace calls")
	flagQlog   = flag.Bool("qlog", false, "log solver queries to /tmp/gosx_q*.smt2")
	flagJ      = flag.Int("j", 0, "workers (default: NumCPU)")
	flagSolver = flag.String("solver", "z3 -in", "solver command")
	flagNoReplay = flag.Bool("noreplay", false, "skip native replay (debugging)")
	flagMaxItems = flag.Int("maxitems", 0, "stop after this many work items (debugging; result is inconclusive)")
	flagOnly   = flag.String("only", "", "only run cases whose name contains this substring")
	flagMutant = flag.String("mutant", "", "overlay replacement file:path pairs (comma separated real=replacement) for self-tests")
)

var flagProf = flag.String("cpuprofile", "", "write cpu profile")

func main() {
	flag.Parse()
	if *flagProf != "" {
		f, _ := os.Create(*flagProf)
		pprof.StartCPUProfile(f)
		defer pprof.StopCPUProfile()
	}
	args := flag.Args()
	if len(args) < 1 {
		fmt.Fprintln(os.Stderr, "usage: gosx [flags] check <spec.json> <quick|thorough>")
		os.Exit(2)
	}
	if d := os.Getenv("VERIF_REPO"); d != "" {
		repoDir = d
	}
	if d := os.Getenv("VERIF_DIR"); d != "" {
		verifDir = d
	}
	switch args[0] {
	case "check":
		tier := "quick"
		if len(args) > 2 {
			tier = args[2]
		}
		if t := os.Getenv("VERIF_TIER"); t != "" && len(args) <= 2 {
			tier = t
		}
		code := runCheck(args[1], tier)
		if *flagProf != "" {
			pprof.StopCPUProfile()
		}
		os.Exit(code)
	default:
		fmt.Fprintln(os.Stderr, "unknown command", args[0])
		os.Exit(2)
	}
}

// buildOverlay maps harness files under verifDir/harness into the repository tree.
func buildOverlay() (map[string][]byte, map[string]string) {
	ov := map[string][]byte{}
	paths := map[string]string{}
	root := filepath.Join(verifDir, "harness")
	filepath.Walk(root, func(p string, info os.FileInfo, err error) error {
		if err != nil || info.IsDir() || !strings.HasSuffix(p, ".go") {
			return nil
		}
		rel, _ := filepath.Rel(root, p)
		var dst string
		if strings.HasPrefix(rel, "verifrt/") {
			dst = filepath.Join(repoDir, "internal", rel)
		} else {
			dst = filepath.Join(repoDir, rel)
		}
		b, _ := os.ReadFile(p)
		ov[dst] = b
		paths[dst] = p
		return nil
	})
	if *flagMutant != "" {
		for _, pair := range strings.Split(*flagMutant, ",") {
			kv := strings.SplitN(pair, "=", 2)
			if len(kv) == 2 {
				b, err := os.ReadFile(kv[1])
				if err != nil {
					fmt.Fprintln(os.Stderr, "mutant:", err)
					os.Exit(2)
				}
				ov[kv[0]] = b
				paths[kv[0]] = kv[1]
			}
		}
	}
	return ov, paths
}

func goEnv() []string {
	env := os.Environ()
	env = append(env, "GOFLAGS=-mod=readonly", "GOWORK=off", "GOPROXY=off", "GOTOOLCHAIN=auto", "CGO_ENABLED=0")
	return env
}

func loadProgram(spec *Spec, tier string) (*ssa.Program, map[string]*ssa.Package, error) {
	ov, _ := buildOverlay()
	seen := map[string]bool{}
	var patterns []string
	for _, cs := range spec.Cases[tier] {
		p := "./" + cs.Pkg
		if !seen[p] {
			seen[p] = true
			patterns = append(patterns, p)
		}
	}
	cfg := &packages.Config{Mode: packages.LoadAllSyntax, Dir: repoDir, BuildFlags: []string{"-tags=verif"},
		Env: goEnv(), Overlay: ov}
	pkgs, err := packages.Load(cfg, patterns...)
	if err != nil {
		return nil, nil, err
	}
	nerr := 0
	packages.Visit(pkgs, nil, func(p *packages.Package) {
		for _, e := range p.Errors {
			if nerr < 20 {
				fmt.Fprintln(os.Stderr, "load error:", e)
			}
			nerr++
		}
	})
	if nerr > 0 {
		return nil, nil, fmt.Errorf("%d package load errors", nerr)
	}
	prog, spkgs := ssautil.AllPackages(pkgs, ssa.InstantiateGenerics)
	prog.Build()
	byPath := map[string]*ssa.Package{}
	for i, p := range pkgs {
		byPath[strings.TrimPrefix(strings.TrimPrefix(p.PkgPath, modPath), "/")] = spkgs[i]
	}
	return prog, byPath, nil
}

func expand(args [][]int64) [][]int64 {
	out := [][]int64{{}}
	for _, vals := range args {
		var next [][]int64
		for _, pre := range out {
			for _, v := range vals {
				n := append(append([]int64(nil), pre...), v)
				next = append(next, n)
			}
		}
		out = next
	}
	return out
}

func runCheck(specPath, tier string) int {
	t0 := time.Now()
	b, err := os.ReadFile(specPath)
	if err != nil {
		fmt.Fprintln(os.Stderr, err)
		return 2
	}
	var spec Spec
	if err := json.Unmarshal(b, &spec); err != nil {
		fmt.Fprintln(os.Stderr, "spec:", err)
		return 2
	}
	if _, ok := spec.Cases[tier]; !ok {
		tier = "quick"
	}
	seed := 0
	fmt.Sscan(os.Getenv("VERIF_SEED"), &seed)

	ev := &Evidence{PropertyID: spec.Property, Tier: tier, Seed: seed, Level: "model_checking"}
	evPath := filepath.Join(verifDir, "evidence", spec.Property+".json")
	if d := os.Getenv("VERIF_EVIDENCE_DIR"); d != "" {
		evPath = filepath.Join(d, spec.Property+".json")
	}
	os.MkdirAll(filepath.Dir(evPath), 0o755)
	fail := func(code int, why string) int {
		ev.WallS = time.Since(t0).Seconds()
		ev.Coverage.Verdict = why
		ev.write(evPath)
		return code
	}

	prog, pkgs, err := loadProgram(&spec, tier)
	if err != nil {
		fmt.Printf("INCONCLUSIVE property=%s reason=load: %v\n", spec.Property, err)
		return fail(2, "load failed: "+err.Error())
	}
	loadS := time.Since(t0).Seconds()

	eng := &Engine{prog: prog, maxInstr: 3000000, maxDecisions: 600, trace: *flagTrace, mergeEnabled: true,
		pureFns: map[string]bool{}, solverBin: strings.Fields(*flagSolver), nworkers: runtime.NumCPU(), qlog: *flagQlog}
	if *flagJ > 0 {
		eng.nworkers = *flagJ
	}
	if spec.MaxInstr > 0 {
		eng.maxInstr = spec.MaxInstr
	}
	if spec.MaxDecisions > 0 {
		eng.maxDecisions = spec.MaxDecisions
	}
	eng.maxItems = spec.MaxItems
	if spec.MaxPreempts != nil {
		maxPreempts = *spec.MaxPreempts
	}
	if *flagMaxItems > 0 {
		eng.maxItems = *flagMaxItems
	}
	for _, p := range spec.Pure {
		eng.pureFns[p] = true
	}
	eng.known = loadKnownFindings(spec.Property)

	var cases []*Case
	for _, cs := range spec.Cases[tier] {
		sp := pkgs[cs.Pkg]
		if sp == nil {
			fmt.Printf("INCONCLUSIVE property=%s reason=package %s not loaded\n", spec.Property, cs.Pkg)
			return fail(2, "package not loaded")
		}
		fn := sp.Func(cs.Fn)
		if fn == nil {
			fmt.Printf("INCONCLUSIVE property=%s reason=harness %s.%s not found\n", spec.Property, cs.Pkg, cs.Fn)
			return fail(2, "harness not found")
		}
		for _, a := range expand(cs.Args) {
			c := &Case{Pkg: cs.Pkg, Fn: cs.Fn, Args: a, fn: fn}
			if *flagOnly != "" && !strings.Contains(c.String(), *flagOnly) {
				continue
			}
			cases = append(cases, c)
		}
	}
	// seed only perturbs work order
	if seed != 0 {
		for i := range cases {
			j := (i*7919 + seed) % len(cases)
			cases[i], cases[j] = cases[j], cases[i]
		}
	}
	eng.Run(cases)
	exploreS := time.Since(t0).Seconds() - loadS

	return finish(&spec, tier, ev, evPath, eng, cases, t0, loadS, exploreS)
}

type Evidence struct {
	PropertyID  string   `json:"property_id"`
	Tier        string   `json:"tier"`
	Seed        int      `json:"seed"`
	Level       string   `json:"level"`
	Coverage    Coverage `json:"coverage"`
	Assumptions []string `json:"assumptions"`
	WallS       float64  `json:"wall_s"`
	Violations  int      `json:"violations"`
}

type Coverage struct {
	States       int      `json:"states"`
	Transitions  int      `json:"transitions"`
	TracesValid  int      `json:"traces_validated_against_impl"`
	Samples      []Sample `json:"samples"`
	Evaluations  int      `json:"evaluations"`
	Nontrivial   int      `json:"distinct_nontrivial"`
	Rule         string   `json:"rule"`
	Exhaustive   bool     `json:"exhaustive"`
	Verdict      string   `json:"verdict"`
	Technique    string   `json:"technique"`
	Cases        []CaseEv `json:"cases"`
	Functions    map[string]int `json:"functions_encoded"`
	ProductFns   []string `json:"product_functions_encoded"`
	Stubs        map[string]int `json:"stubs_used"`
	Bounds       map[string]string `json:"bounds"`
	OutsideBound []string `json:"outside_bound"`
	PathsPruned  int      `json:"paths_pruned_by_assume"`
	Infeasible   int      `json:"infeasible_siblings"`
	Inconclusive int      `json:"inconclusive_paths"`
	InconclReasons map[string]int `json:"inconclusive_reasons,omitempty"`
	Queries      int      `json:"queries"`
	SolverS      float64  `json:"solver_s"`
	SolverVersion string  `json:"solver_versions"`
	AssertQueries int     `json:"assertions_discharged"`
	Instr        int      `json:"ssa_instructions_executed"`
	ReachLabels  map[string]int `json:"reach_labels"`
	KnownHit     []string `json:"known_findings_hit,omitempty"`
	ViolationList []string `json:"violation_list,omitempty"`
	LoadS        float64  `json:"load_s"`
	ExploreS     float64  `json:"explore_s"`
	ReplayS      float64  `json:"replay_s"`
}

type CaseEv struct {
	Case string `json:"case"`
	Paths int `json:"paths_completed"`
	Pruned int `json:"pruned"`
	Infeasible int `json:"infeasible"`
	Inconclusive int `json:"inconclusive"`
	Violating int `json:"violating"`
	Decisions int `json:"decisions"`
	Asserts int `json:"symbolic_assertions"`
}

func (ev *Evidence) write(path string) {
	if ev.Coverage.Samples == nil {
		ev.Coverage.Samples = []Sample{}
	}
	if ev.Assumptions == nil {
		ev.Assumptions = []string{}
	}
	b, _ := json.MarshalIndent(ev, "", " ")
	os.WriteFile(path, b, 0o644)
}

func solverVersion(bin []string) string {
	out, err := runCmd("", nil, bin[0], "--version")
	if err != nil {
		return bin[0]
	}
	return strings.TrimSpace(out)
}

func finish(spec *Spec, tier string, ev *Evidence, evPath string, eng *Engine, cases []*Case, t0 time.Time, loadS, exploreS float64) int {
	cov := &ev.Coverage
	cov.Technique = "symbolic execution of go/ssa (gosx) + SMT (z3), bounded; counterexamples replayed natively"
	cov.Functions = map[string]int{}
	cov.Stubs = map[string]int{}
	cov.ReachLabels = map[string]int{}
	cov.InconclReasons = map[string]int{}
	cov.Bounds = spec.Bounds
	cov.OutsideBound = spec.OutsideBound
	cov.SolverVersion = solverVersion(eng.solverBin)
	cov.LoadS, cov.ExploreS = loadS, exploreS
	ev.Assumptions = append([]string{}, spec.Assumptions...)
	var viols []*Violation
	prodFns := map[string]bool{}
	for _, c := range cases {
		st := c.Stats
		cov.Cases = append(cov.Cases, CaseEv{Case: c.String(), Paths: st.Completed, Pruned: st.Pruned, Infeasible: st.Infeasible,
			Inconclusive: st.Inconclusive, Violating: st.Violating, Decisions: st.Decisions, Asserts: st.SymAsserts})
		cov.States += st.Completed + st.Violating
		cov.Transitions += st.Decisions
		cov.Evaluations += st.Started
		cov.Nontrivial += st.Nontrivial
		cov.PathsPruned += st.Pruned
		cov.Infeasible += st.Infeasible
		cov.Inconclusive += st.Inconclusive
		cov.Queries += st.Queries
		cov.SolverS += st.SolverTime.Seconds()
		cov.AssertQueries += st.SymAsserts
		cov.Instr += st.Instr
		for k, v := range c.Inconcl {
			cov.InconclReasons[c.String()+": "+k] += v
		}
		for k, v := range c.Reach {
			cov.ReachLabels[k] += v
		}
		for k, v := range c.FnCount {
			cov.Functions[k] += v
		}
		for k, v := range c.Stubs {
			cov.Stubs[k] += v
		}
		if len(cov.Samples) < 12 {
			cov.Samples = append(cov.Samples, c.Samples...)
		}
		viols = append(viols, c.Violations...)
		if siteDebug {
			type kv struct {
				k string
				v int
			}
			var l []kv
			for k, v := range c.Sites {
				l = append(l, kv{k, v})
			}
			sort.Slice(l, func(i, j int) bool { return l[i].v > l[j].v })
			for i, e := range l {
				if i < 12 {
					fmt.Fprintf(os.Stderr, "SITE %s %6d %s\n", c.String(), e.v, e.k)
				}
			}
		}
	}
	for k := range cov.Functions {
		if strings.Contains(k, modPath) && !strings.Contains(k, "Verif") && !strings.Contains(k, "verifrt") && !strings.Contains(k, "vh") {
			prodFns[k] = true
		}
	}
	for k := range prodFns {
		cov.ProductFns = append(cov.ProductFns, k)
	}
	sort.Strings(cov.ProductFns)
	// keep the functions map readable: drop library functions below a threshold when it is large
	if len(cov.Functions) > 150 {
		for k, v := range cov.Functions {
			if !strings.Contains(k, modPath) && v < 50 {
				delete(cov.Functions, k)
			}
		}
	}
	cov.Rule = spec.Rule
	if cov.Rule == "" {
		cov.Rule = "a case is one explored path (distinct vector of symbolic branch decisions) of a harness run; non-trivial = the path completed and discharged at least one assertion query containing a symbolic variable"
	}
	cov.Exhaustive = cov.Inconclusive == 0 && !eng.overflow

	code := 0
	verdict := "holds within bounds"

	// vacuity: required reach labels
	for _, l := range spec.ReachReq {
		if cov.ReachLabels[l] == 0 {
			fmt.Printf("INCONCLUSIVE property=%s reason=vacuous: label %q never reached\n", spec.Property, l)
			code = 2
			verdict = "vacuous: label " + l + " never reached"
		}
	}
	if cov.Inconclusive > 0 || eng.overflow {
		var rs []string
		for k, v := range cov.InconclReasons {
			rs = append(rs, fmt.Sprintf("%s (x%d)", k, v))
		}
		sort.Strings(rs)
		if len(rs) > 5 {
			rs = rs[:5]
		}
		fmt.Printf("INCONCLUSIVE property=%s reason=%d inconclusive paths: %s\n", spec.Property, cov.Inconclusive, strings.Join(rs, "; "))
		code = 2
		verdict = "inconclusive"
	}

	tr := time.Now()
	// violations: replay natively before reporting
	if len(viols) > 0 {
		c2, v2 := handleViolations(spec, ev, viols)
		if c2 > code || c2 == 1 {
			code = c2
		}
		if v2 != "" {
			verdict = v2
		}
	}
	// concrete/symbolic agreement on passing paths
	if code == 0 && !*flagNoReplay {
		n := spec.Validate
		if n == 0 {
			n = 6
		}
		ok, bad := validateSamples(spec, cases, n)
		cov.TracesValid = ok
		if bad != "" {
			fmt.Printf("INCONCLUSIVE property=%s reason=native replay of a passing path disagreed: %s\n", spec.Property, bad)
			code = 2
			verdict = "encoder disagreement with native run"
		}
	}
	cov.ReplayS = time.Since(tr).Seconds()
	cov.Verdict = verdict
	ev.WallS = time.Since(t0).Seconds()
	ev.write(evPath)
	fmt.Printf("%s %s: %s; cases=%d paths=%d pruned=%d infeasible=%d inconclusive=%d violations=%d decisions=%d queries=%d solver=%.1fs instr=%d wall=%.1fs (load %.1fs, explore %.1fs)\n",
		spec.Property, tier, verdict, len(cases), cov.States, cov.PathsPruned, cov.Infeasible, cov.Inconclusive, ev.Violations, cov.Transitions, cov.Queries, cov.SolverS, cov.Instr, ev.WallS, loadS, exploreS)
	return code
}
