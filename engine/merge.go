package main

import (
	"go/token"

	"golang.org/x/tools/go/ssa"
)

// Pure-call merging: placeholder.

type mergeCtx struct{}
type mergeAbort struct{ reason string }

func (in *Interp) mergeDecide(c *Term) bool { panic(mergeAbort{"not built"}) }

func (in *Interp) mergeCall(caller *frame, pos token.Pos, fn *ssa.Function, args []Value, env []Value) (Value, bool) {
	return nil, false
}
