package main

import (
	"go/token"

	"golang.org/x/tools/go/ssa"
)

// Pure-call merging: a call to a side-effect-free function (listed per check) is explored locally —
// every control-flow path through it — and its scalar results are merged into one ite term, so the
// caller does not fork once per callee path. No solver queries are needed: infeasible callee paths
// only contribute ite branches under unsatisfiable guards. If anything unexpected happens (panic,
// nondet, assume/assert, non-mergeable results, too many paths) the engine falls back to ordinary
// forking execution of the call.

type mergeCtx struct {
	prefix []bool
	pos    int
	conds  []*Term
	decs   []bool
}

type mergeAbort struct{ reason string }

const mergeMaxPaths = 128
const mergeMaxDepth = 24

func (in *Interp) mergeDecide(c *Term) bool {
	ctx := in.path.merge
	var taken bool
	if ctx.pos < len(ctx.prefix) {
		taken = ctx.prefix[ctx.pos]
	} else {
		if len(ctx.decs) >= mergeMaxDepth {
			panic(mergeAbort{"depth"})
		}
		taken = true
	}
	ctx.pos++
	ctx.decs = append(ctx.decs, taken)
	if taken {
		ctx.conds = append(ctx.conds, c)
	} else {
		ctx.conds = append(ctx.conds, Not(c))
	}
	return taken
}

type mergeResult struct {
	cond *Term
	val  Value
}

func (in *Interp) mergeCall(caller *frame, pos token.Pos, fn *ssa.Function, args []Value, env []Value) (res Value, ok bool) {
	p := in.path
	savedInstr := p.ninstr
	var results []mergeResult
	stack := [][]bool{{}}
	aborted := false
	for len(stack) > 0 && !aborted {
		prefix := stack[len(stack)-1]
		stack = stack[:len(stack)-1]
		ctx := &mergeCtx{prefix: prefix}
		p.merge = ctx
		depth := in.depth
		var v Value
		func() {
			defer func() {
				p.merge = nil
				in.depth = depth
				if r := recover(); r != nil {
					switch r.(type) {
					case mergeAbort, targetPanic:
						aborted = true
					default:
						panic(r)
					}
				}
			}()
			v = in.callSSA(caller, pos, fn, args, env)
		}()
		if aborted {
			break
		}
		// siblings: flip each decision made beyond the prefix
		for i := len(prefix); i < len(ctx.decs); i++ {
			sib := make([]bool, i+1)
			copy(sib, ctx.decs[:i])
			sib[i] = !ctx.decs[i]
			stack = append(stack, sib)
		}
		results = append(results, mergeResult{AndN(ctx.conds...), v})
		if len(results)+len(stack) > mergeMaxPaths {
			aborted = true
		}
	}
	if aborted {
		p.ninstr = savedInstr
		return nil, false
	}
	r := results[len(results)-1].val
	for i := len(results) - 2; i >= 0; i-- {
		m, ok := mergeVals(results[i].cond, results[i].val, r)
		if !ok {
			p.ninstr = savedInstr
			return nil, false
		}
		r = m
	}
	return r, true
}

func mergeVals(c *Term, a, b Value) (Value, bool) {
	switch av := a.(type) {
	case nil:
		return nil, b == nil
	case *Term:
		bv, ok := b.(*Term)
		if !ok || av.sort != bv.sort {
			return nil, false
		}
		return Ite(c, av, bv), true
	case string:
		bv, ok := b.(string)
		if ok && av == bv {
			return av, true
		}
		return nil, false
	case Tuple:
		bv, ok := b.(Tuple)
		if !ok || len(av) != len(bv) {
			return nil, false
		}
		out := make(Tuple, len(av))
		for i := range av {
			m, ok := mergeVals(c, av[i], bv[i])
			if !ok {
				return nil, false
			}
			out[i] = m
		}
		return out, true
	case *Value:
		bv, ok := b.(*Value)
		if ok && av == bv {
			return av, true
		}
		return nil, false
	case Iface:
		bv, ok := b.(Iface)
		if ok && av.t == nil && bv.t == nil {
			return av, true
		}
		return nil, false
	}
	return nil, false
}
