package main

// Symbolic evaluation of text/template.
//
// text/template executes through reflection, which the interpreter cannot follow. The templates
// themselves are source code of the program under analysis (embedded *.tmpl files), so they are
// executed here directly: the files are read from the package directory of /repo's current
// working tree, parsed with Go's own text/template/parse, and the parse tree is evaluated over
// engine values. Functions of the FuncMap are the program's real closures, called through the
// interpreter. The output is an ordinary (possibly symbolic) string.
//
// Supported: text, {{pipeline}}, variables ($x := / $x =), if/else, range (slices; 0-2 variables),
// template calls, field chains over structs / pointers / map[string]T / interfaces, niladic
// methods, function calls, the builtins eq ne lt le gt ge len not and or print. Anything else
// aborts the path as unsupported (the check then reports inconclusive, never success).

import (
	"fmt"
	"go/types"
	"os"
	"path/filepath"
	"sort"
	"strconv"
	"strings"
	"text/template/parse"

	"golang.org/x/tools/go/ssa"
)

type tmplSet struct {
	name  string
	funcs *Map
	trees map[string]*parse.Tree
}

// tv is a value with its static (or dynamic, for interface contents) Go type; t == nil: untyped nil.
type tv struct {
	v Value
	t types.Type
}

type tmplVar struct {
	name string
	val  tv
}

type tmplState struct {
	in   *Interp
	fr   *frame
	set  *tmplSet
	vars []tmplVar
	out  Value
	depth int
}

var tmplBuiltins = map[string]bool{"eq": true, "ne": true, "lt": true, "le": true, "gt": true, "ge": true,
	"len": true, "not": true, "and": true, "or": true, "print": true, "printf": true, "println": true, "index": true,
	"html": true, "js": true, "urlquery": true, "call": true, "slice": true}

func init() {
	reg("text/template.New", func(in *Interp, fr *frame, args []Value) Value {
		name, _ := args[0].(string)
		var v Value = &tmplSet{name: name}
		return &v
	})
	reg("(*text/template.Template).Funcs", func(in *Interp, fr *frame, args []Value) Value {
		ts := tmplOf(in, args[0])
		m, _ := args[1].(*Map)
		ts.funcs = m
		return args[0]
	})
	reg("(*text/template.Template).ParseFS", func(in *Interp, fr *frame, args []Value) Value {
		ts := tmplOf(in, args[0])
		dir := callerDir(in, fr)
		pats, _ := args[2].(Slice)
		funcs := map[string]any{}
		for k := range tmplBuiltins {
			funcs[k] = true
		}
		if ts.funcs != nil {
			for _, e := range ts.funcs.order {
				if k, ok := e.key.(string); ok && !e.deleted {
					funcs[k] = true
				}
			}
		}
		if ts.trees == nil {
			ts.trees = map[string]*parse.Tree{}
		}
		var files []string
		for _, p := range pats {
			ps, _ := p.(string)
			m, err := filepath.Glob(filepath.Join(dir, ps))
			if err != nil || len(m) == 0 {
				in.abort("unsupported: template.ParseFS pattern %q matches no file under %s", ps, dir)
			}
			files = append(files, m...)
		}
		sort.Strings(files)
		for _, f := range files {
			b, err := os.ReadFile(f)
			if err != nil {
				in.abort("template file: %v", err)
			}
			trees, err := parse.Parse(filepath.Base(f), string(b), "", "", funcs)
			if err != nil {
				in.abort("unsupported: template %s does not parse: %v", f, err)
			}
			for n, t := range trees {
				if old, dup := ts.trees[n]; dup && !parse.IsEmptyTree(old.Root) && !parse.IsEmptyTree(t.Root) && old.ParseName != t.ParseName {
					in.abort("unsupported: template %q defined twice", n)
				} else if dup && parse.IsEmptyTree(t.Root) {
					continue
				}
				ts.trees[n] = t
			}
		}
		in.stubNote("text/template: " + strconv.Itoa(len(files)) + " template files from " + dir + " evaluated symbolically")
		return Tuple{args[0], Iface{}}
	})
	reg("(*text/template.Template).Execute", func(in *Interp, fr *frame, args []Value) Value {
		ts := tmplOf(in, args[0])
		data, _ := args[2].(Iface)
		st := &tmplState{in: in, fr: fr, set: ts, out: ""}
		st.execTemplate(ts.name, tv{data.v, data.t})
		if os.Getenv("VERIF_DEBUG_TMPL") != "" {
			fmt.Fprintf(os.Stderr, "---- template output\n%s\n----\n", debugStr(st.out))
		}
		// deliver the text to the writer
		w, _ := args[1].(Iface)
		if p, ok := w.v.(*Value); ok && p != nil && strings.HasSuffix(types.TypeString(w.t, nil), "bytes.Buffer") {
			b := (*p).(Struct)
			if old, _ := b[0].(Slice); len(old) != 0 {
				in.abort("unsupported: template.Execute into a non-empty bytes.Buffer")
			}
			nb := make(Struct, len(b))
			copy(nb, b)
			switch s := st.out.(type) {
			case string:
				bs := make(Slice, len(s))
				for i := 0; i < len(s); i++ {
					bs[i] = BV(8, uint64(s[i]))
				}
				nb[0] = bs
			case *SymStr:
				nb[0] = in.symStringToBytes(s)
			}
			*p = nb
			return Iface{}
		}
		in.abort("unsupported: template.Execute into %v", w.t)
		return nil
	})
}

func (in *Interp) stubNote(s string) { in.stubs[s]++ }

func tmplOf(in *Interp, v Value) *tmplSet {
	if p, ok := v.(*Value); ok && p != nil {
		if ts, ok := (*p).(*tmplSet); ok {
			return ts
		}
	}
	in.abort("unsupported: template value %T", v)
	return nil
}

// callerDir is the source directory of the function that called the intrinsic.
func callerDir(in *Interp, fr *frame) string {
	for f := fr.caller; f != nil; f = f.caller {
		fn := f.fn
		for fn.Parent() != nil {
			fn = fn.Parent()
		}
		if fn.Pos().IsValid() {
			return filepath.Dir(in.prog.Fset.Position(fn.Pos()).Filename)
		}
	}
	in.abort("unsupported: cannot locate the template directory")
	return ""
}

func (st *tmplState) fail(n parse.Node, format string, a ...interface{}) {
	st.in.abort("unsupported: template %s: %s (node %q)", st.set.name, fmt.Sprintf(format, a...), n.String())
}

func (st *tmplState) emit(v Value) { st.out = st.in.strConcat(st.out, v) }

func (st *tmplState) execTemplate(name string, dot tv) {
	t := st.set.trees[name]
	if t == nil || t.Root == nil {
		st.in.abort("unsupported: template %q not defined", name)
	}
	st.depth++
	if st.depth > 50 {
		st.in.abort("unwinding: template recursion depth exceeded")
	}
	saved := st.vars
	st.vars = []tmplVar{{"$", dot}}
	st.walk(dot, t.Root)
	st.vars = saved
	st.depth--
}

func (st *tmplState) walk(dot tv, n parse.Node) {
	switch n := n.(type) {
	case *parse.ListNode:
		if n == nil {
			return
		}
		for _, c := range n.Nodes {
			st.walk(dot, c)
		}
	case *parse.TextNode:
		st.emit(string(n.Text))
	case *parse.CommentNode:
	case *parse.ActionNode:
		v := st.evalPipeline(dot, n.Pipe)
		if len(n.Pipe.Decl) == 0 {
			st.emit(st.print(n, v))
		}
	case *parse.IfNode:
		mark := len(st.vars)
		c := st.evalPipeline(dot, n.Pipe)
		if st.truth(n, c) {
			st.walk(dot, n.List)
		} else if n.ElseList != nil {
			st.walk(dot, n.ElseList)
		}
		st.vars = st.vars[:mark]
	case *parse.RangeNode:
		mark := len(st.vars)
		// the pipeline's declared variables receive the elements, not the collection
		coll := st.evalPipelineNoDecl(dot, n.Pipe)
		coll = st.indirectIface(coll)
		sl, ok := coll.v.(Slice)
		stype, _ := typeUnder(coll.t).(*types.Slice)
		if coll.v != nil && (!ok || stype == nil) {
			if a, isArr := coll.v.(Array); isArr {
				sl = Slice(a)
				at := typeUnder(coll.t).(*types.Array)
				stype = types.NewSlice(at.Elem())
			} else {
				st.fail(n, "range over %T", coll.v)
			}
		}
		if len(sl) == 0 {
			if n.ElseList != nil {
				st.walk(dot, n.ElseList)
			}
			st.vars = st.vars[:mark]
			return
		}
		for i, e := range sl {
			inner := len(st.vars)
			elem := tv{e, stype.Elem()}
			switch len(n.Pipe.Decl) {
			case 1:
				st.vars = append(st.vars, tmplVar{n.Pipe.Decl[0].Ident[0], elem})
			case 2:
				st.vars = append(st.vars, tmplVar{n.Pipe.Decl[0].Ident[0], tv{BV(64, uint64(i)), types.Typ[types.Int]}})
				st.vars = append(st.vars, tmplVar{n.Pipe.Decl[1].Ident[0], elem})
			}
			st.walk(elem, n.List)
			st.vars = st.vars[:inner]
		}
		st.vars = st.vars[:mark]
	case *parse.TemplateNode:
		nd := dot
		if n.Pipe != nil {
			nd = st.evalPipeline(dot, n.Pipe)
		} else {
			nd = tv{}
		}
		st.execTemplate(n.Name, nd)
	default:
		st.fail(n, "node type %T", n)
	}
}

func typeUnder(t types.Type) types.Type {
	if t == nil {
		return nil
	}
	return underlying(t)
}

func (st *tmplState) evalPipelineNoDecl(dot tv, p *parse.PipeNode) tv {
	var val tv
	have := false
	for _, c := range p.Cmds {
		val = st.evalCommand(dot, c, val, have)
		have = true
	}
	return val
}

func (st *tmplState) evalPipeline(dot tv, p *parse.PipeNode) tv {
	if p == nil {
		return tv{}
	}
	val := st.evalPipelineNoDecl(dot, p)
	for _, d := range p.Decl {
		if p.IsAssign {
			st.setVar(d, d.Ident[0], val)
		} else {
			st.vars = append(st.vars, tmplVar{d.Ident[0], val})
		}
	}
	return val
}

func (st *tmplState) setVar(n parse.Node, name string, v tv) {
	for i := len(st.vars) - 1; i >= 0; i-- {
		if st.vars[i].name == name {
			st.vars[i].val = v
			return
		}
	}
	st.fail(n, "assignment to undefined variable %s", name)
}

func (st *tmplState) getVar(n parse.Node, name string) tv {
	for i := len(st.vars) - 1; i >= 0; i-- {
		if st.vars[i].name == name {
			return st.vars[i].val
		}
	}
	st.fail(n, "undefined variable %s", name)
	return tv{}
}

func (st *tmplState) evalCommand(dot tv, c *parse.CommandNode, final tv, haveFinal bool) tv {
	first := c.Args[0]
	switch n := first.(type) {
	case *parse.FieldNode:
		return st.fieldChain(n, dot, n.Ident, c.Args, final, haveFinal, dot)
	case *parse.ChainNode:
		base := st.evalArg(dot, n.Node)
		return st.fieldChain(n, base, n.Field, c.Args, final, haveFinal, dot)
	case *parse.IdentifierNode:
		return st.callFunc(dot, n, n.Ident, c.Args, final, haveFinal)
	case *parse.PipeNode:
		st.notArgs(c, haveFinal)
		return st.evalPipeline(dot, n)
	case *parse.VariableNode:
		base := st.getVar(n, n.Ident[0])
		if len(n.Ident) == 1 {
			st.notArgs(c, haveFinal)
			return base
		}
		return st.fieldChain(n, base, n.Ident[1:], c.Args, final, haveFinal, dot)
	}
	st.notArgs(c, haveFinal)
	return st.evalArg(dot, first)
}

func (st *tmplState) notArgs(c *parse.CommandNode, haveFinal bool) {
	if len(c.Args) > 1 || haveFinal {
		st.fail(c, "arguments given to a non-function")
	}
}

// evalArg evaluates an operand that is not in command position.
func (st *tmplState) evalArg(dot tv, n parse.Node) tv {
	switch n := n.(type) {
	case *parse.DotNode:
		return dot
	case *parse.NilNode:
		return tv{}
	case *parse.FieldNode:
		return st.fieldChain(n, dot, n.Ident, nil, tv{}, false, dot)
	case *parse.VariableNode:
		base := st.getVar(n, n.Ident[0])
		if len(n.Ident) == 1 {
			return base
		}
		return st.fieldChain(n, base, n.Ident[1:], nil, tv{}, false, dot)
	case *parse.PipeNode:
		return st.evalPipeline(dot, n)
	case *parse.ChainNode:
		return st.fieldChain(n, st.evalArg(dot, n.Node), n.Field, nil, tv{}, false, dot)
	case *parse.IdentifierNode:
		return st.callFunc(dot, n, n.Ident, []parse.Node{n}, tv{}, false)
	case *parse.BoolNode:
		return tv{Bool(n.True), types.Typ[types.Bool]}
	case *parse.StringNode:
		return tv{n.Text, types.Typ[types.String]}
	case *parse.NumberNode:
		if n.IsInt {
			return tv{BV(64, uint64(n.Int64)), types.Typ[types.UntypedInt]}
		}
		if n.IsUint {
			return tv{BV(64, n.Uint64), types.Typ[types.UntypedInt]}
		}
	}
	st.fail(n, "operand type %T", n)
	return tv{}
}

// indirectIface unwraps interface values to their dynamic content.
func (st *tmplState) indirectIface(v tv) tv {
	for {
		itf, ok := v.v.(Iface)
		if !ok {
			return v
		}
		if itf.t == nil {
			return tv{}
		}
		v = tv{itf.v, itf.t}
	}
}

func (st *tmplState) fieldChain(n parse.Node, base tv, idents []string, args []parse.Node, final tv, haveFinal bool, dot tv) tv {
	cur := base
	for i, id := range idents {
		last := i == len(idents)-1
		var a []parse.Node
		f, hf := tv{}, false
		if last {
			a, f, hf = args, final, haveFinal
		}
		cur = st.field(n, dot, cur, id, a, f, hf)
	}
	return cur
}

func (st *tmplState) field(n parse.Node, dot tv, recv tv, name string, args []parse.Node, final tv, haveFinal bool) tv {
	recv = st.indirectIface(recv)
	if recv.t == nil {
		st.fail(n, "nil pointer evaluating field %s", name)
	}
	hasArgs := len(args) > 1 || haveFinal
	// methods first (on the value or its address)
	if m := st.method(recv, name); m != nil {
		var av []Value
		av = append(av, m.recv)
		sig := m.fn.Signature
		extra := st.evalCallArgs(n, dot, sig, args, final, haveFinal)
		av = append(av, extra...)
		r := st.in.call(st.fr, 0, m.fn, av)
		return st.callResult(n, sig, r)
	}
	// pointer to struct
	t := recv.t
	v := recv.v
	if pt, ok := typeUnder(t).(*types.Pointer); ok {
		p, _ := v.(*Value)
		if p == nil {
			st.fail(n, "nil pointer evaluating field %s", name)
		}
		v, t = *p, pt.Elem()
	}
	switch ut := typeUnder(t).(type) {
	case *types.Struct:
		if hasArgs {
			st.fail(n, "field %s called with arguments", name)
		}
		s, ok := v.(Struct)
		if !ok {
			st.fail(n, "field %s of %T", name, v)
		}
		for i := 0; i < ut.NumFields(); i++ {
			if ut.Field(i).Name() == name {
				if !ut.Field(i).Exported() {
					st.fail(n, "unexported field %s", name)
				}
				return tv{s[i], ut.Field(i).Type()}
			}
		}
		st.fail(n, "no field %s in %v", name, t)
	case *types.Map:
		if hasArgs {
			st.fail(n, "map key %s called with arguments", name)
		}
		m, _ := v.(*Map)
		e := st.in.mapFind(m, name)
		if e == nil {
			return tv{zero(ut.Elem()), ut.Elem()}
		}
		return tv{e.val, ut.Elem()}
	}
	st.fail(n, "cannot evaluate field %s in type %v", name, recv.t)
	return tv{}
}

type tmplMethod struct {
	fn   *ssa.Function
	recv Value
}

func (st *tmplState) method(recv tv, name string) *tmplMethod {
	t := recv.t
	if _, isIface := typeUnder(t).(*types.Interface); isIface {
		return nil
	}
	ms := st.in.prog.MethodSets.MethodSet(t)
	for i := 0; i < ms.Len(); i++ {
		if ms.At(i).Obj().Name() == name && ms.At(i).Obj().Exported() {
			return &tmplMethod{fn: st.in.prog.MethodValue(ms.At(i)), recv: recv.v}
		}
	}
	return nil
}

func (st *tmplState) callResult(n parse.Node, sig *types.Signature, r Value) tv {
	res := sig.Results()
	switch res.Len() {
	case 1:
		return tv{r, res.At(0).Type()}
	case 2:
		tup, _ := r.(Tuple)
		if e, _ := tup[1].(Iface); e.t != nil {
			st.fail(n, "function returned an error")
		}
		return tv{tup[0], res.At(0).Type()}
	}
	st.fail(n, "function with %d results", res.Len())
	return tv{}
}

// evalCallArgs evaluates args[1:] (+ final) against the parameter types of sig (receiver excluded).
func (st *tmplState) evalCallArgs(n parse.Node, dot tv, sig *types.Signature, args []parse.Node, final tv, haveFinal bool) []Value {
	var vals []tv
	if len(args) > 1 {
		for _, a := range args[1:] {
			vals = append(vals, st.evalArg(dot, a))
		}
	}
	if haveFinal {
		vals = append(vals, final)
	}
	params := sig.Params()
	np := params.Len()
	var out []Value
	if sig.Variadic() {
		if len(vals) < np-1 {
			st.fail(n, "wrong number of arguments")
		}
		for i := 0; i < np-1; i++ {
			out = append(out, st.convertArg(n, vals[i], params.At(i).Type()))
		}
		et := params.At(np - 1).Type().(*types.Slice).Elem()
		var rest Slice
		for _, v := range vals[np-1:] {
			rest = append(rest, st.convertArg(n, v, et))
		}
		out = append(out, rest)
		return out
	}
	if len(vals) != np {
		st.fail(n, "wrong number of arguments: want %d got %d", np, len(vals))
	}
	for i, v := range vals {
		out = append(out, st.convertArg(n, v, params.At(i).Type()))
	}
	return out
}

func (st *tmplState) convertArg(n parse.Node, v tv, pt types.Type) Value {
	if _, isIface := typeUnder(pt).(*types.Interface); isIface {
		if _, already := v.v.(Iface); already {
			return v.v
		}
		if v.t == nil {
			return Iface{}
		}
		t := v.t
		if b, ok := t.(*types.Basic); ok && b.Kind() == types.UntypedInt {
			t = types.Typ[types.Int]
		}
		return Iface{t: t, v: v.v}
	}
	v = st.indirectIface(v)
	if v.t == nil {
		switch typeUnder(pt).(type) {
		case *types.Pointer, *types.Slice, *types.Map:
			return zero(pt)
		}
		st.fail(n, "nil argument for %v", pt)
	}
	if w, _, ok := isIntType(pt); ok {
		x, isT := v.v.(*Term)
		sw, signed, isInt := isIntType(v.t)
		if !isT || !isInt {
			st.fail(n, "argument of type %v for %v", v.t, pt)
		}
		if b, isB := v.t.(*types.Basic); !(isB && b.Kind() == types.UntypedInt) && !types.Identical(typeUnder(v.t), typeUnder(pt)) {
			st.fail(n, "argument of type %v for %v", v.t, pt)
		}
		_ = sw
		return Resize(x, w, signed)
	}
	if !types.AssignableTo(v.t, pt) && !types.Identical(typeUnder(v.t), typeUnder(pt)) {
		st.fail(n, "argument of type %v for %v", v.t, pt)
	}
	return v.v
}

func (st *tmplState) callFunc(dot tv, n parse.Node, name string, args []parse.Node, final tv, haveFinal bool) tv {
	// user functions take precedence over builtins, as in text/template
	if st.set.funcs != nil {
		if e := st.in.mapFind(st.set.funcs, name); e != nil {
			itf, _ := e.val.(Iface)
			sig, ok := typeUnder(itf.t).(*types.Signature)
			if !ok {
				st.fail(n, "function %s is a %v", name, itf.t)
			}
			av := st.evalCallArgs(n, dot, sig, args, final, haveFinal)
			r := st.in.call(st.fr, 0, itf.v, av)
			return st.callResult(n, sig, r)
		}
	}
	var vals []tv
	lazy := name == "and" || name == "or"
	if !lazy {
		if len(args) > 1 {
			for _, a := range args[1:] {
				vals = append(vals, st.evalArg(dot, a))
			}
		}
		if haveFinal {
			vals = append(vals, final)
		}
	}
	boolT := types.Typ[types.Bool]
	switch name {
	case "and", "or":
		// short-circuit: the result is the first empty (and) / non-empty (or) argument, else the last
		var nodes []parse.Node
		if len(args) > 1 {
			nodes = args[1:]
		}
		total := len(nodes)
		if haveFinal {
			total++
		}
		if total == 0 {
			st.fail(n, "%s without arguments", name)
		}
		var v tv
		for i := 0; i < total; i++ {
			if i < len(nodes) {
				v = st.evalArg(dot, nodes[i])
			} else {
				v = final
			}
			if st.truth(n, v) == (name == "or") {
				return v
			}
		}
		return v
	case "not":
		if len(vals) != 1 {
			st.fail(n, "not takes one argument")
		}
		return tv{Not(st.truthTerm(n, vals[0])), boolT}
	case "len":
		if len(vals) != 1 {
			st.fail(n, "len takes one argument")
		}
		v := st.indirectIface(vals[0])
		switch x := v.v.(type) {
		case Slice:
			return tv{BV(64, uint64(len(x))), types.Typ[types.Int]}
		case Array:
			return tv{BV(64, uint64(len(x))), types.Typ[types.Int]}
		case *Map:
			return tv{BV(64, uint64(x.Len())), types.Typ[types.Int]}
		case string:
			return tv{BV(64, uint64(len(x))), types.Typ[types.Int]}
		case nil:
			if _, ok := typeUnder(v.t).(*types.Slice); ok {
				return tv{BV(64, 0), types.Typ[types.Int]}
			}
		}
		st.fail(n, "len of %T", v.v)
	case "eq":
		if len(vals) < 2 {
			st.fail(n, "eq needs two arguments")
		}
		r := tFalse
		for _, o := range vals[1:] {
			r = Or(r, st.cmp(n, "eq", vals[0], o))
		}
		return tv{r, boolT}
	case "ne", "lt", "le", "gt", "ge":
		if len(vals) != 2 {
			st.fail(n, "%s needs two arguments", name)
		}
		return tv{st.cmp(n, name, vals[0], vals[1]), boolT}
	case "print":
		var out Value = ""
		for i, v := range vals {
			// fmt.Sprint adds spaces between operands when neither is a string
			if i > 0 {
				_, s1 := st.indirectIface(vals[i-1]).v.(string)
				_, s2 := st.indirectIface(v).v.(string)
				if !s1 && !s2 {
					out = st.in.strConcat(out, " ")
				}
			}
			out = st.in.strConcat(out, st.print(n, v))
		}
		return tv{out, types.Typ[types.String]}
	}
	if name == "printf" {
		if len(vals) == 0 {
			st.fail(n, "printf needs a format")
		}
		format, ok := st.indirectIface(vals[0]).v.(string)
		if !ok {
			st.fail(n, "printf with a non-constant format")
		}
		var ops Slice
		for _, v := range vals[1:] {
			x := st.indirectIface(v)
			ops = append(ops, Iface{t: x.t, v: x.v})
		}
		r := st.in.sprintf(st.fr, format, ops)
		if ss, ok := r.(*SymStr); ok && ss.opaque {
			st.fail(n, "printf %q over operands outside the modelled shapes", format)
		}
		return tv{r, types.Typ[types.String]}
	}
	st.fail(n, "function %s", name)
	return tv{}
}

// cmp implements text/template's basic-kind comparisons for integers, strings and booleans.
func (st *tmplState) cmp(n parse.Node, op string, a, b tv) *Term {
	a, b = st.indirectIface(a), st.indirectIface(b)
	if a.t == nil || b.t == nil {
		if op == "eq" || op == "ne" {
			r := Bool(a.t == nil && b.t == nil)
			if op == "ne" {
				r = Not(r)
			}
			return r
		}
		st.fail(n, "comparison with nil")
	}
	var eq, lt *Term
	wa, sa, ia := isIntType(a.t)
	wb, sb, ib := isIntType(b.t)
	switch {
	case ia && ib:
		x, okx := a.v.(*Term)
		y, oky := b.v.(*Term)
		if !okx || !oky {
			st.fail(n, "comparison of %T and %T", a.v, b.v)
		}
		// compare as mathematical integers, the way text/template does for mixed signedness
		if bb, isB := a.t.(*types.Basic); isB && bb.Kind() == types.UntypedInt {
			sa = true
		}
		if bb, isB := b.t.(*types.Basic); isB && bb.Kind() == types.UntypedInt {
			sb = true
		}
		_, _ = wa, wb
		x64, y64 := Resize(x, 64, sa), Resize(y, 64, sb)
		zero64 := BV(64, 0)
		switch {
		case sa == sb && sa:
			eq, lt = Eq(x64, y64), Cmp(OSlt, x64, y64)
		case sa == sb:
			eq, lt = Eq(x64, y64), Cmp(OUlt, x64, y64)
		case sa: // signed vs unsigned
			neg := Cmp(OSlt, x64, zero64)
			eq = And(Not(neg), Eq(x64, y64))
			lt = Or(neg, Cmp(OUlt, x64, y64))
		default: // unsigned vs signed
			neg := Cmp(OSlt, y64, zero64)
			eq = And(Not(neg), Eq(x64, y64))
			lt = And(Not(neg), Cmp(OUlt, x64, y64))
		}
	case isStringType(a.t) && isStringType(b.t):
		eq = st.in.strEq(a.v, b.v)
		if op != "eq" && op != "ne" {
			lt = st.in.strLess(a.v, b.v)
		}
	case isBoolType(a.t) && isBoolType(b.t):
		x, _ := a.v.(*Term)
		y, _ := b.v.(*Term)
		eq = Eq(x, y)
		if op != "eq" && op != "ne" {
			st.fail(n, "ordering of booleans")
		}
	default:
		st.fail(n, "comparison of %v and %v", a.t, b.t)
	}
	switch op {
	case "eq":
		return eq
	case "ne":
		return Not(eq)
	case "lt":
		return lt
	case "le":
		return Or(lt, eq)
	case "gt":
		return Not(Or(lt, eq))
	case "ge":
		return Not(lt)
	}
	return nil
}

func isStringType(t types.Type) bool {
	b, ok := typeUnder(t).(*types.Basic)
	return ok && b.Info()&types.IsString != 0
}

func isBoolType(t types.Type) bool {
	b, ok := typeUnder(t).(*types.Basic)
	return ok && b.Info()&types.IsBoolean != 0
}

// truthTerm is text/template's IsTrue as a boolean term.
func (st *tmplState) truthTerm(n parse.Node, v tv) *Term {
	v = st.indirectIface(v)
	if v.t == nil {
		return tFalse
	}
	switch x := v.v.(type) {
	case *Term:
		if x.sort == SBool {
			return x
		}
		return Not(Eq(x, BV(x.sort, 0)))
	case string:
		return Bool(len(x) > 0)
	case *SymStr:
		return Not(st.in.strEq(x, ""))
	case Slice:
		return Bool(len(x) > 0)
	case Array:
		return Bool(len(x) > 0)
	case *Map:
		return Bool(x.Len() > 0)
	case *Value:
		return Bool(x != nil)
	case Struct:
		return tTrue
	case nil:
		return tFalse
	case *Closure:
		return Bool(x != nil)
	}
	st.fail(n, "truth of %T", v.v)
	return nil
}

func (st *tmplState) truth(n parse.Node, v tv) bool {
	return st.in.decide(st.truthTerm(n, v))
}

// print renders a value the way text/template does (fmt.Fprint of the indirected value).
func (st *tmplState) print(n parse.Node, v tv) Value {
	v = st.indirectIface(v)
	if v.t == nil {
		return "<no value>"
	}
	// pointers are followed unless the pointer type itself is a Stringer / error
	for {
		pt, ok := typeUnder(v.t).(*types.Pointer)
		if !ok {
			break
		}
		if hasMethod(st.in.prog, v.t, "String") || hasMethod(st.in.prog, v.t, "Error") {
			break
		}
		p, _ := v.v.(*Value)
		if p == nil {
			return "<nil>"
		}
		v = tv{*p, pt.Elem()}
	}
	if x, ok := v.v.(*Term); ok && x.sort == SBool {
		if st.in.decide(x) {
			return "true"
		}
		return "false"
	}
	r := st.in.formatValue(st.fr, v.t, v.v, 'v', 0)
	if r == nil {
		st.fail(n, "cannot print a %v", v.t)
	}
	if s, ok := r.(*SymStr); ok && s.opaque {
		st.fail(n, "printing an opaque string")
	}
	return r
}

func debugStr(v Value) string {
	switch s := v.(type) {
	case string:
		return s
	case *SymStr:
		var segs []seg
		flattenStr(s.t, &segs)
		var b strings.Builder
		for _, sg := range segs {
			if sg.atom == nil {
				b.WriteString(sg.lit)
			} else {
				b.WriteString("«" + sg.atom.String() + "»")
			}
		}
		return b.String()
	}
	return fmt.Sprint(v)
}
