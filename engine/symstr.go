package main

import (
	"fmt"
	"strings"
)

// Strings: concrete Go strings, or *SymStr (term of the uninterpreted sort S, or opaque text).

func (in *Interp) strTerm(v Value) *Term {
	switch s := v.(type) {
	case string:
		return litTerm(s)
	case *SymStr:
		if s.opaque {
			in.abort("unsupported: decision on opaque (formatted) text")
		}
		return s.t
	}
	panic(fmt.Sprintf("strTerm: %T", v))
}

func litTerm(s string) *Term {
	return App("lit!"+fmt.Sprintf("%x", s), SStr)
}

func (in *Interp) strConcat(x, y Value) Value {
	xs, xok := x.(string)
	ys, yok := y.(string)
	if xok && yok {
		return xs + ys
	}
	if xok && xs == "" {
		return y
	}
	if yok && ys == "" {
		return x
	}
	if sx, ok := x.(*SymStr); ok && sx.opaque {
		return sx
	}
	if sy, ok := y.(*SymStr); ok && sy.opaque {
		return sy
	}
	return &SymStr{t: App("cat", SStr, in.strTerm(x), in.strTerm(y))}
}

func (in *Interp) strEq(x, y Value) *Term {
	xs, xok := x.(string)
	ys, yok := y.(string)
	if xok && yok {
		return Bool(xs == ys)
	}
	return in.strTermEq(in.strTerm(x), in.strTerm(y))
}

func (in *Interp) strLess(x, y Value) *Term {
	xs, xok := x.(string)
	ys, yok := y.(string)
	if xok && yok {
		return Bool(xs < ys)
	}
	return in.strTermLess(in.strTerm(x), in.strTerm(y))
}

func (in *Interp) symStrLen(s *SymStr) Value {
	in.abort("unsupported: len of symbolic string")
	return nil
}

func (in *Interp) symBytesToString(b Slice) Value {
	in.abort("unsupported: string(bytes) with symbolic bytes")
	return nil
}

func (in *Interp) symStringToBytes(s *SymStr) Slice {
	in.abort("unsupported: []byte(symbolic string)")
	return nil
}

func (in *Interp) sprintLike(args Slice) Value {
	return &SymStr{opaque: true}
}

func (in *Interp) sprintf(fr *frame, format string, args Slice) Value {
	if !strings.Contains(format, "%") {
		return format
	}
	return &SymStr{opaque: true}
}

func (in *Interp) strTermEq(a, b *Term) *Term {
	return Eq(a, b)
}

func (in *Interp) strTermLess(a, b *Term) *Term {
	in.abort("unsupported: order on symbolic strings (not built yet)")
	return nil
}
