package main

import (
	"fmt"
	"strings"
)

// Strings: concrete Go strings, or *SymStr (term of the uninterpreted sort S, or opaque text).

func (in *Interp) strTerm(v Value) *Term {
	switch s := v.(type) {
	case string:
		return litTerm(s)
	case *SymStr:
		if s.opaque {
			in.abort("unsupported: decision on opaque (formatted) text")
		}
		return s.t
	}
	panic(fmt.Sprintf("strTerm: %T", v))
}

func litTerm(s string) *Term {
	return App("lit!"+fmt.Sprintf("%x", s), SStr)
}

func (in *Interp) strConcat(x, y Value) Value {
	xs, xok := x.(string)
	ys, yok := y.(string)
	if xok && yok {
		return xs + ys
	}
	if xok && xs == "" {
		return y
	}
	if yok && ys == "" {
		return x
	}
	if sx, ok := x.(*SymStr); ok && sx.opaque {
		return sx
	}
	if sy, ok := y.(*SymStr); ok && sy.opaque {
		return sy
	}
	return &SymStr{t: App("cat", SStr, in.strTerm(x), in.strTerm(y))}
}

func (in *Interp) strEq(x, y Value) *Term {
	xs, xok := x.(string)
	ys, yok := y.(string)
	if xok && yok {
		return Bool(xs == ys)
	}
	return in.strTermEq(in.strTerm(x), in.strTerm(y))
}

func (in *Interp) strLess(x, y Value) *Term {
	xs, xok := x.(string)
	ys, yok := y.(string)
	if xok && yok {
		return Bool(xs < ys)
	}
	return in.strTermLess(in.strTerm(x), in.strTerm(y))
}

func (in *Interp) symStrLen(s *SymStr) Value {
	if s.opaque {
		in.abort("unsupported: len of opaque text")
	}
	var rec func(t *Term) *Term
	rec = func(t *Term) *Term {
		if l, ok := litOf(t); ok {
			return BV(64, uint64(len(l)))
		}
		if t.op == OIte {
			return Ite(t.args[0], rec(t.args[1]), rec(t.args[2]))
		}
		in.abort("unsupported: len of symbolic string %s", t)
		return nil
	}
	return rec(s.t)
}

func (in *Interp) symBytesToString(b Slice) Value {
	in.abort("unsupported: string(bytes) with symbolic bytes")
	return nil
}

func (in *Interp) symStringToBytes(s *SymStr) Slice {
	in.abort("unsupported: []byte(symbolic string)")
	return nil
}

func (in *Interp) sprintLike(args Slice) Value {
	return &SymStr{opaque: true}
}

func (in *Interp) sprintf(fr *frame, format string, args Slice) Value {
	if !strings.Contains(format, "%") {
		return format
	}
	return &SymStr{opaque: true}
}

func (in *Interp) strTermEq(a, b *Term) *Term {
	if a.op == OIte {
		return Ite(a.args[0], in.strTermEq(a.args[1], b), in.strTermEq(a.args[2], b))
	}
	if b.op == OIte {
		return Ite(b.args[0], in.strTermEq(a, b.args[1]), in.strTermEq(a, b.args[2]))
	}
	return Eq(a, b)
}

// litOf returns the literal text of a lit! term.
func litOf(t *Term) (string, bool) {
	if t.op == OApp && len(t.args) == 0 && strings.HasPrefix(t.name, "lit!") {
		var out []byte
		hx := t.name[4:]
		for i := 0; i+1 < len(hx); i += 2 {
			var b byte
			fmt.Sscanf(hx[i:i+2], "%02x", &b)
			out = append(out, b)
		}
		return string(out), true
	}
	return "", false
}

func (in *Interp) strTermLess(a, b *Term) *Term {
	in.abort("unsupported: order on symbolic strings (not built yet)")
	return nil
}
