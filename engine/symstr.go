package main

import (
	"fmt"
	"go/types"
	"net"
	"strconv"
	"strings"
)

// Strings: concrete Go strings, or *SymStr (term of the uninterpreted sort S, or opaque text).
//
// Constructors of S-terms (all with the equalities real strings satisfy):
//   lit!<hex>            literal
//   IPStr(b0..b15)       net.IP.String() of the 16-byte normal form; injective
//   NetStr(b0..b15,len)  net.IPNet.String() (canonical masks only); injective
//   Dec(x64)             decimal text of a signed 64-bit value; injective
//   cat(a,b)             concatenation; compared through flattened segment lists
//   ite(c,a,b)           symbolic choice

func (in *Interp) strTerm(v Value) *Term {
	switch s := v.(type) {
	case string:
		return litTerm(s)
	case *SymStr:
		if s.opaque {
			in.abort("unsupported: decision on opaque (formatted) text")
		}
		return s.t
	}
	panic(fmt.Sprintf("strTerm: %T", v))
}

func litTerm(s string) *Term {
	return App("lit!"+fmt.Sprintf("%x", s), SStr)
}

// litOf returns the literal text of a lit! term.
func litOf(t *Term) (string, bool) {
	if t.op == OApp && len(t.args) == 0 && strings.HasPrefix(t.name, "lit!") {
		hx := t.name[4:]
		out := make([]byte, 0, len(hx)/2)
		for i := 0; i+1 < len(hx); i += 2 {
			b, _ := strconv.ParseUint(hx[i:i+2], 16, 8)
			out = append(out, byte(b))
		}
		return string(out), true
	}
	return "", false
}

func (in *Interp) strConcat(x, y Value) Value {
	xs, xok := x.(string)
	ys, yok := y.(string)
	if xok && yok {
		return xs + ys
	}
	if xok && xs == "" {
		return y
	}
	if yok && ys == "" {
		return x
	}
	if sx, ok := x.(*SymStr); ok && sx.opaque {
		return sx
	}
	if sy, ok := y.(*SymStr); ok && sy.opaque {
		return sy
	}
	return &SymStr{t: App("cat", SStr, in.strTerm(x), in.strTerm(y))}
}

func (in *Interp) strEq(x, y Value) *Term {
	xs, xok := x.(string)
	ys, yok := y.(string)
	if xok && yok {
		return Bool(xs == ys)
	}
	return in.strTermEq(in.strTerm(x), in.strTerm(y))
}

func (in *Interp) strLess(x, y Value) *Term {
	xs, xok := x.(string)
	ys, yok := y.(string)
	if xok && yok {
		return Bool(xs < ys)
	}
	return in.strTermLess(in.strTerm(x), in.strTerm(y))
}

func (in *Interp) symStrLen(s *SymStr) Value {
	if s.opaque {
		in.abort("unsupported: len of opaque text")
	}
	var rec func(t *Term) *Term
	rec = func(t *Term) *Term {
		if l, ok := litOf(t); ok {
			return BV(64, uint64(len(l)))
		}
		if t.op == OIte {
			return Ite(t.args[0], rec(t.args[1]), rec(t.args[2]))
		}
		if t.op == OApp && t.name == "cat" {
			return BvBin(OAdd, rec(t.args[0]), rec(t.args[1]))
		}
		// constructors never produce empty strings; the exact length is not modelled
		return App("strlen", 64, t)
	}
	l := rec(s.t)
	if l.op == OApp && l.name == "strlen" {
		// len(s) > 0 is the only fact available
		in.assumeAxiom(Cmp(OSlt, BV(64, 0), l))
		in.assumeAxiom(Cmp(OSlt, l, BV(64, 64)))
	}
	return l
}

// symBytes marks the byte image of a symbolic string; it only flows into intrinsics.
type symBytes struct{ s *SymStr }

func (in *Interp) symBytesToString(b Slice) Value {
	if len(b) == 1 {
		if sb, ok := b[0].(symBytes); ok {
			return sb.s
		}
	}
	in.abort("unsupported: string(bytes) with symbolic bytes")
	return nil
}

func (in *Interp) symStringToBytes(s *SymStr) Slice {
	return Slice{symBytes{s}}
}

// sprintLike implements fmt.Sprint (ln=false) / fmt.Sprintln (ln=true) for the operand shapes
// formatValue knows; anything else yields an opaque text.
func (in *Interp) sprintLike(fr *frame, args Slice, ln bool) Value {
	var out Value = ""
	prevString := false
	for i, a := range args {
		arg, ok := a.(Iface)
		if !ok {
			return &SymStr{opaque: true}
		}
		isString := false
		if arg.t != nil {
			if b, ok := underlying(arg.t).(*types.Basic); ok && b.Info()&types.IsString != 0 {
				isString = true
			}
		}
		// Sprint adds a space between operands when neither is a string; Sprintln always
		if i > 0 && (ln || (!isString && !prevString)) {
			out = in.strConcat(out, " ")
		}
		var p Value = "<nil>"
		if arg.t != nil {
			p = in.formatValue(fr, arg.t, arg.v, 'v', 0)
		}
		if p == nil {
			return &SymStr{opaque: true}
		}
		if ss, ok := p.(*SymStr); ok && ss.opaque {
			return ss
		}
		out = in.strConcat(out, p)
		prevString = isString
	}
	if ln {
		out = in.strConcat(out, "\n")
	}
	return out
}

// ---- equality

type seg struct {
	lit  string
	atom *Term
}

func flattenStr(t *Term, out *[]seg) {
	if t.op == OApp && t.name == "cat" {
		flattenStr(t.args[0], out)
		flattenStr(t.args[1], out)
		return
	}
	if l, ok := litOf(t); ok {
		if l == "" {
			return
		}
		if n := len(*out); n > 0 && (*out)[n-1].atom == nil {
			(*out)[n-1].lit += l
			return
		}
		*out = append(*out, seg{lit: l})
		return
	}
	*out = append(*out, seg{atom: t})
}

// atomClass describes the alphabet of a constructor's range (used to decide whether a literal
// separator can occur inside it).
func atomAlphabet(t *Term) string {
	if t.op != OApp {
		return ""
	}
	switch t.name {
	case "IPStr":
		return "0123456789abcdef:."
	case "NetStr":
		return "0123456789abcdef:./"
	case "Dec":
		if a := t.args[0]; a.op == OZext || (a.op == OConst && a.sval() >= 0) {
			return "0123456789"
		}
		return "-0123456789"
	}
	return ""
}

func (in *Interp) strTermEq(a, b *Term) *Term {
	if a.op == OIte {
		return Ite(a.args[0], in.strTermEq(a.args[1], b), in.strTermEq(a.args[2], b))
	}
	if b.op == OIte {
		return Ite(b.args[0], in.strTermEq(a, b.args[1]), in.strTermEq(a, b.args[2]))
	}
	if deepSame(a, b) {
		return tTrue
	}
	// a choice nested inside a concatenation is lifted to the top: cat(x, ite(c,p,q), y) =
	// ite(c, cat(x,p,y), cat(x,q,y)); otherwise the comparison would fall back to uninterpreted equality
	if t, ok := liftNestedIte(a); ok {
		return in.strTermEq(t, b)
	}
	if t, ok := liftNestedIte(b); ok {
		return in.strTermEq(a, t)
	}
	la, aLit := litOf(a)
	lb, bLit := litOf(b)
	if aLit && bLit {
		return Bool(la == lb)
	}
	if aLit {
		a, b = b, a
		lb, bLit = la, true
	}
	// now a is not a literal
	if a.op == OApp && b.op == OApp && a.name == b.name && len(a.args) == len(b.args) {
		switch a.name {
		case "IPStr", "NetStr", "Dec":
			r := tTrue
			for i := range a.args {
				r = And(r, Eq(a.args[i], b.args[i]))
			}
			return r
		}
	}
	if bLit {
		lit := lb
		switch {
		case a.op == OApp && a.name == "IPStr":
			ip := net.ParseIP(lit)
			if ip == nil || ip.String() != lit {
				return tFalse
			}
			ip16 := ip.To16()
			r := tTrue
			for i := 0; i < 16; i++ {
				r = And(r, Eq(a.args[i], BV(8, uint64(ip16[i]))))
			}
			return r
		case a.op == OApp && a.name == "Dec":
			v, err := strconv.ParseInt(lit, 10, 64)
			if err != nil || strconv.FormatInt(v, 10) != lit {
				return tFalse
			}
			return Eq(a.args[0], BV(64, uint64(v)))
		case a.op == OApp && a.name == "NetStr":
			_, n, err := net.ParseCIDR(lit)
			if err != nil || n.String() != lit {
				return tFalse
			}
			ones, bits := n.Mask.Size()
			ip16 := n.IP.To16()
			if bits == 32 {
				ones += 96
			}
			r := Eq(a.args[16], BV(8, uint64(ones)))
			fam := uint64(0)
			if bits == 128 && n.IP.To4() == nil {
				fam = 1
			}
			r = And(r, Eq(a.args[17], BV(8, fam)))
			for i := 0; i < 16; i++ {
				r = And(r, Eq(a.args[i], BV(8, uint64(ip16[i]))))
			}
			return r
		}
	}
	// different injective constructors have disjoint ranges where the alphabets / shapes differ
	if a.op == OApp && b.op == OApp && a.name != b.name {
		ka, kb := a.name, b.name
		known := map[string]bool{"IPStr": true, "NetStr": true, "Dec": true}
		if known[ka] && known[kb] {
			return tFalse // IPStr has '.' or ':' and no '/', NetStr has '/', Dec has only digits
		}
	}
	// concatenations: compare flattened segment lists
	var sa, sb []seg
	flattenStr(a, &sa)
	flattenStr(b, &sb)
	if len(sa) > 1 || len(sb) > 1 {
		if r, ok := in.segsEq(sa, sb); ok {
			return r
		}
	}
	return Eq(a, b)
}

// segsEq decides equality of two segment lists when the decomposition is unambiguous.
func (in *Interp) segsEq(sa, sb []seg) (*Term, bool) {
	r := tTrue
	i, j := 0, 0
	for i < len(sa) && j < len(sb) {
		x, y := sa[i], sb[j]
		switch {
		case x.atom == nil && y.atom == nil:
			// both literal: strip the common prefix
			n := len(x.lit)
			if len(y.lit) < n {
				n = len(y.lit)
			}
			if x.lit[:n] != y.lit[:n] {
				return tFalse, true
			}
			if len(x.lit) == n {
				i++
			} else {
				sa[i].lit = x.lit[n:]
			}
			if len(y.lit) == n {
				j++
			} else {
				sb[j].lit = y.lit[n:]
			}
		case x.atom != nil && y.atom != nil:
			// atom vs atom: unambiguous only if what follows each is a literal separator outside both
			// alphabets (or both are last)
			if !in.atomBoundaryOK(sa, i, sb, j) {
				return nil, false
			}
			r = And(r, in.strTermEq(x.atom, y.atom))
			i++
			j++
		default:
			// literal vs atom: the atom must equal a prefix of the literal up to the separator
			var lit string
			var atom *Term
			var rest []seg
			var litIsA bool
			if x.atom == nil {
				lit, atom, rest, litIsA = x.lit, y.atom, sb[j+1:], true
			} else {
				lit, atom, rest, litIsA = y.lit, x.atom, sa[i+1:], false
			}
			alpha := atomAlphabet(atom)
			if alpha == "" {
				return nil, false
			}
			// longest prefix of lit inside the alphabet
			k := 0
			for k < len(lit) && strings.IndexByte(alpha, lit[k]) >= 0 {
				k++
			}
			if k < len(lit) {
				// next char of lit is a separator: the atom's text is exactly lit[:k] provided the atom is
				// followed by a literal starting with that separator
				if len(rest) == 0 || rest[0].atom != nil || rest[0].lit[0] != lit[k] {
					if len(rest) == 0 {
						return tFalse, true
					}
					if rest[0].atom == nil && strings.IndexByte(alpha, rest[0].lit[0]) < 0 {
						// the atom's text is a prefix lit[:m], m <= k, followed by rest's first character c,
						// which is outside the alphabet: lit[m] = c is impossible for m < k (inside the
						// alphabet) and for m = k (lit[k] != c)
						return tFalse, true
					}
					return nil, false
				}
			} else if len(rest) != 0 {
				return nil, false
			}
			r = And(r, in.strTermEq(atom, litTerm(lit[:k])))
			if litIsA {
				if k == len(lit) {
					i++
				} else {
					sa[i].lit = lit[k:]
				}
				j++
			} else {
				if k == len(lit) {
					j++
				} else {
					sb[j].lit = lit[k:]
				}
				i++
			}
		}
		if r.IsFalse() {
			return tFalse, true
		}
	}
	if i < len(sa) || j < len(sb) {
		// leftover segments: atoms are never empty, literals here are non-empty
		return tFalse, true
	}
	return r, true
}

func (in *Interp) atomBoundaryOK(sa []seg, i int, sb []seg, j int) bool {
	alphaA, alphaB := atomAlphabet(sa[i].atom), atomAlphabet(sb[j].atom)
	lastA, lastB := i == len(sa)-1, j == len(sb)-1
	if lastA && lastB {
		return true
	}
	if lastA != lastB {
		return false
	}
	na, nb := sa[i+1], sb[j+1]
	if na.atom != nil || nb.atom != nil {
		return false
	}
	if alphaA == "" || alphaB == "" {
		return false
	}
	return strings.IndexByte(alphaA, na.lit[0]) < 0 && strings.IndexByte(alphaB, na.lit[0]) < 0 &&
		strings.IndexByte(alphaA, nb.lit[0]) < 0 && strings.IndexByte(alphaB, nb.lit[0]) < 0
}

// ---- order: uninterpreted strict total order on the S-terms compared on the path

func (in *Interp) assumeAxiom(c *Term) {
	if c.op == OConst {
		return
	}
	if in.path.merge != nil {
		panic(mergeAbort{"axiom inside merged call"})
	}
	in.addPC(c)
	in.w.solver.AssertFrame(c)
}

func slt(a, b *Term) *Term { return App("slt", SBool, a, b) }

func (in *Interp) registerOrd(t *Term) {
	p := in.path
	for _, u := range p.ordTerms {
		if deepSame(u, t) {
			return
		}
	}
	lt, tLit := litOf(t)
	for _, u := range p.ordTerms {
		eq := in.strTermEq(t, u)
		// totality and asymmetry: exactly one of t<u, u<t, t=u
		a, b := slt(t, u), slt(u, t)
		in.assumeAxiom(Or(Or(a, b), eq))
		in.assumeAxiom(Not(And(a, b)))
		in.assumeAxiom(Not(And(a, eq)))
		in.assumeAxiom(Not(And(b, eq)))
		if lu, uLit := litOf(u); tLit && uLit {
			in.assumeAxiom(Eq(a, Bool(lt < lu)))
		}
	}
	// transitivity over all triples that include t
	for i, u := range p.ordTerms {
		for j, v := range p.ordTerms {
			if i == j {
				continue
			}
			// t<u & u<v => t<v ; u<t & t<v => u<v ; u<v & v<t => u<t
			in.assumeAxiom(Or(Not(And(slt(t, u), slt(u, v))), slt(t, v)))
			in.assumeAxiom(Or(Not(And(slt(u, t), slt(t, v))), slt(u, v)))
			in.assumeAxiom(Or(Not(And(slt(u, v), slt(v, t))), slt(u, t)))
		}
	}
	p.ordTerms = append(p.ordTerms, t)
}

func (in *Interp) strTermLess(a, b *Term) *Term {
	if a.op == OIte {
		return Ite(a.args[0], in.strTermLess(a.args[1], b), in.strTermLess(a.args[2], b))
	}
	if b.op == OIte {
		return Ite(b.args[0], in.strTermLess(a, b.args[1]), in.strTermLess(a, b.args[2]))
	}
	la, aLit := litOf(a)
	lb, bLit := litOf(b)
	if aLit && bLit {
		return Bool(la < lb)
	}
	if deepSame(a, b) {
		return tFalse
	}
	in.registerOrd(a)
	in.registerOrd(b)
	return slt(a, b)
}

// ---- constructors

// ipStringValue implements net.IP.String for a byte slice with symbolic bytes.
func (in *Interp) ipStringValue(ip Slice) Value {
	if bs, ok := concBytes(ip); ok {
		return net.IP(bs).String()
	}
	var b16 []*Term
	switch len(ip) {
	case 4:
		for i := 0; i < 10; i++ {
			b16 = append(b16, BV(8, 0))
		}
		b16 = append(b16, BV(8, 0xff), BV(8, 0xff))
		for _, e := range ip {
			b16 = append(b16, e.(*Term))
		}
	case 16:
		for _, e := range ip {
			b16 = append(b16, e.(*Term))
		}
	default:
		// not an address: the text is only used for logs / metrics
		return &SymStr{opaque: true}
	}
	return &SymStr{t: App("IPStr", SStr, b16...)}
}

func decString(x *Term, signed bool) Value {
	if x.op == OConst {
		if signed {
			return strconv.FormatInt(x.sval(), 10)
		}
		return strconv.FormatUint(x.val, 10)
	}
	return &SymStr{t: App("Dec", SStr, Resize(x, 64, signed))}
}

// sprintf supports the key-building uses of fmt.Sprintf: constant format with %s %d %v %q verbs.
func (in *Interp) sprintf(fr *frame, format string, args Slice) Value {
	if !strings.Contains(format, "%") {
		return format
	}
	var out Value = ""
	ai := 0
	i := 0
	lit := ""
	flush := func() {
		if lit != "" {
			out = in.strConcat(out, lit)
			lit = ""
		}
	}
	for i < len(format) {
		c := format[i]
		if c != '%' {
			lit += string(c)
			i++
			continue
		}
		if i+1 >= len(format) {
			return &SymStr{opaque: true}
		}
		v := format[i+1]
		i += 2
		if v == '%' {
			lit += "%"
			continue
		}
		if ai >= len(args) {
			return &SymStr{opaque: true}
		}
		arg := args[ai].(Iface)
		ai++
		var piece Value
		switch v {
		case 's', 'v', 'd', 'q':
			piece = in.formatOperand(fr, arg, v)
		default:
			return &SymStr{opaque: true}
		}
		if piece == nil {
			return &SymStr{opaque: true}
		}
		if ss, ok := piece.(*SymStr); ok && ss.opaque {
			return ss
		}
		flush()
		if v == 'q' {
			out = in.strConcat(out, "\"")
			out = in.strConcat(out, piece)
			out = in.strConcat(out, "\"")
		} else {
			out = in.strConcat(out, piece)
		}
	}
	flush()
	return out
}

func (in *Interp) formatOperand(fr *frame, arg Iface, verb byte) Value {
	if arg.t == nil {
		return nil
	}
	return in.formatValue(fr, arg.t, arg.v, verb, 0)
}

// formatValue renders v (of static type t) the way fmt does for %v %s %d %q, for the value shapes
// that key-building code uses: strings, integers, booleans, Stringers, slices and plain structs.
func (in *Interp) formatValue(fr *frame, t types.Type, v Value, verb byte, depth int) Value {
	if depth > 4 {
		return nil
	}
	// Stringer / error take precedence (except for %d)
	if verb != 'd' {
		if _, isPtrNil := v.(*Value); !(isPtrNil && v.(*Value) == nil) {
			if hasMethod(in.prog, t, "String") {
				r := in.invoke(fr, Iface{t: t, v: v}, "String")
				switch r.(type) {
				case string, *SymStr:
					return r
				}
			}
			if hasMethod(in.prog, t, "Error") {
				return &SymStr{opaque: true}
			}
		}
	}
	switch x := v.(type) {
	case string:
		return x
	case *SymStr:
		return x
	case *Term:
		if x.sort == SBool {
			if x.op == OConst {
				return strconv.FormatBool(x.val == 1)
			}
			return nil
		}
		_, signed, ok := isIntType(t)
		if !ok {
			return nil
		}
		return decString(x, signed)
	case Iface:
		if x.t == nil {
			return "<nil>"
		}
		return in.formatValue(fr, x.t, x.v, verb, depth+1)
	case Slice:
		st, ok := underlying(t).(*types.Slice)
		if !ok {
			return nil
		}
		var out Value = "["
		for i, e := range x {
			if i > 0 {
				out = in.strConcat(out, " ")
			}
			p := in.formatValue(fr, st.Elem(), e, verb, depth+1)
			if p == nil {
				return nil
			}
			if ss, ok := p.(*SymStr); ok && ss.opaque {
				return ss
			}
			out = in.strConcat(out, p)
		}
		return in.strConcat(out, "]")
	case Struct:
		st, ok := underlying(t).(*types.Struct)
		if !ok {
			return nil
		}
		var out Value = "{"
		for i, f := range x {
			if i > 0 {
				out = in.strConcat(out, " ")
			}
			p := in.formatValue(fr, st.Field(i).Type(), f, verb, depth+1)
			if p == nil {
				return nil
			}
			if ss, ok := p.(*SymStr); ok && ss.opaque {
				return ss
			}
			out = in.strConcat(out, p)
		}
		return in.strConcat(out, "}")
	}
	return nil
}

// maskBytes builds the bytes of net.CIDRMask(n, 8*nbytes) for a symbolic n (64-bit term).
func maskBytes(n *Term, nbytes int) []Value {
	out := make([]Value, nbytes)
	for i := 0; i < nbytes; i++ {
		lo := BV(64, uint64(8*i))
		hi := BV(64, uint64(8*(i+1)))
		part := BvNot(BvBin(OLshr, BV(8, 0xff), Resize(BvBin(OSub, n, lo), 8, false)))
		out[i] = Ite(Cmp(OSle, hi, n), BV(8, 0xff), Ite(Cmp(OSle, n, lo), BV(8, 0), part))
	}
	return out
}

// parseSymCIDR implements net.ParseCIDR on the symbolic texts  [::ffff:]IPStr(a) "/" Dec(n).
func (in *Interp) parseSymCIDR(s *SymStr) Value {
	if s.opaque {
		return nil
	}
	var segs []seg
	flattenStr(s.t, &segs)
	mapped := false
	if len(segs) == 4 && segs[0].atom == nil && segs[0].lit == "::ffff:" {
		mapped = true
		segs = segs[1:]
	}
	if len(segs) != 3 || segs[0].atom == nil || segs[1].atom != nil || segs[1].lit != "/" || segs[2].atom == nil {
		return nil
	}
	ipT, nT := segs[0].atom, segs[2].atom
	if ipT.op != OApp || ipT.name != "IPStr" || nT.op != OApp || nT.name != "Dec" {
		return nil
	}
	n := nT.args[0]
	// is the address of the IPv4 form (::ffff:a.b.c.d)? decided from the concrete prefix bytes
	isV4 := true
	for i := 0; i < 12; i++ {
		b := ipT.args[i]
		want := uint64(0)
		if i >= 10 {
			want = 0xff
		}
		if b.op != OConst {
			in.abort("unsupported: ParseCIDR on an address whose family is symbolic")
		}
		if b.val != want {
			isV4 = false
		}
	}
	if mapped && !isV4 {
		return nil
	}
	errT := in.newError("net.ParseCIDR", nil)
	bad := Tuple{Slice(nil), (*Value)(nil), errT}
	if !isV4 || mapped {
		if !in.decide(And(Cmp(OSle, BV(64, 0), n), Cmp(OSle, n, BV(64, 128)))) {
			return bad
		}
		mask := maskBytes(n, 16)
		ip := make(Slice, 16)
		masked := make(Slice, 16)
		for i := 0; i < 16; i++ {
			ip[i] = ipT.args[i]
			masked[i] = BvBin(OBAnd, ipT.args[i], mask[i].(*Term))
		}
		st := Value(Struct{masked, Slice(mask)})
		return Tuple{ip, &st, Iface{}}
	}
	if !in.decide(And(Cmp(OSle, BV(64, 0), n), Cmp(OSle, n, BV(64, 32)))) {
		return bad
	}
	mask := maskBytes(n, 4)
	ip := make(Slice, 16)
	for i := 0; i < 16; i++ {
		ip[i] = ipT.args[i]
	}
	masked := make(Slice, 4)
	for i := 0; i < 4; i++ {
		masked[i] = BvBin(OBAnd, ipT.args[12+i], mask[i].(*Term))
	}
	st := Value(Struct{masked, Slice(mask)})
	return Tuple{ip, &st, Iface{}}
}

// ---- strings.Contains / SplitN / TrimSpace on symbolic strings with literal separators

func segsToValue(in *Interp, segs []seg) Value {
	var out Value = ""
	for _, sg := range segs {
		if sg.atom == nil {
			out = in.strConcat(out, sg.lit)
		} else {
			out = in.strConcat(out, &SymStr{t: sg.atom})
		}
	}
	return out
}

// atomMayContain reports whether the text of atom can contain byte c (unknown alphabets: yes).
func atomMayContain(a *Term, c byte) bool {
	if a.op == OIte {
		return atomMayContain(a.args[1], c) || atomMayContain(a.args[2], c)
	}
	if l, ok := litOf(a); ok {
		return strings.IndexByte(l, c) >= 0
	}
	alpha := atomAlphabet(a)
	if alpha == "" {
		return true
	}
	return strings.IndexByte(alpha, c) >= 0
}

func (in *Interp) symContains(s *SymStr, sub string) Value {
	if s.opaque || len(sub) != 1 {
		in.abort("unsupported: strings.Contains on symbolic text with needle %q", sub)
	}
	var segs []seg
	flattenStr(s.t, &segs)
	for _, sg := range segs {
		if sg.atom == nil {
			if strings.Contains(sg.lit, sub) {
				return tTrue
			}
		} else if sg.atom.op == OApp && sg.atom.name == "Dec" && sub == "-" {
			// a decimal contains '-' exactly when it is negative
			if in.decide(Cmp(OSlt, sg.atom.args[0], BV(64, 0))) {
				return tTrue
			}
		} else if atomMayContain(sg.atom, sub[0]) {
			in.abort("unsupported: strings.Contains: separator %q may occur inside a symbolic piece", sub)
		}
	}
	return tFalse
}

func (in *Interp) symSplitN(s *SymStr, sep string, n int) Value {
	if s.opaque || len(sep) != 1 || n != 2 {
		in.abort("unsupported: strings.SplitN on symbolic text")
	}
	var segs []seg
	flattenStr(s.t, &segs)
	for i, sg := range segs {
		if sg.atom != nil {
			if atomMayContain(sg.atom, sep[0]) {
				in.abort("unsupported: strings.SplitN: separator may occur inside a symbolic piece")
			}
			continue
		}
		if k := strings.Index(sg.lit, sep); k >= 0 {
			before := append(append([]seg{}, segs[:i]...), seg{lit: sg.lit[:k]})
			after := append([]seg{{lit: sg.lit[k+1:]}}, segs[i+1:]...)
			return Slice{segsToValue(in, before), segsToValue(in, after)}
		}
	}
	return Slice{s}
}

func (in *Interp) symTrimSpace(s *SymStr) Value {
	if s.opaque {
		return s
	}
	var segs []seg
	flattenStr(s.t, &segs)
	if len(segs) == 0 {
		return ""
	}
	if segs[0].atom == nil {
		segs[0].lit = strings.TrimLeft(segs[0].lit, " \t\n\r")
	} else if atomMayContain(segs[0].atom, ' ') {
		in.abort("unsupported: TrimSpace on a symbolic piece that may contain spaces")
	}
	last := len(segs) - 1
	if segs[last].atom == nil {
		segs[last].lit = strings.TrimRight(segs[last].lit, " \t\n\r")
	} else if atomMayContain(segs[last].atom, ' ') {
		in.abort("unsupported: TrimSpace on a symbolic piece that may contain spaces")
	}
	return segsToValue(in, segs)
}

// symSplit implements strings.Split for a one-byte literal separator that cannot occur inside the
// symbolic pieces.
func (in *Interp) symSplit(s *SymStr, sep string) Value {
	if s.opaque || len(sep) != 1 {
		in.abort("unsupported: strings.Split on symbolic text")
	}
	var segs []seg
	flattenStr(s.t, &segs)
	var out Slice
	var cur []seg
	for _, sg := range segs {
		if sg.atom != nil {
			if atomMayContain(sg.atom, sep[0]) {
				in.abort("unsupported: strings.Split: separator may occur inside a symbolic piece")
			}
			cur = append(cur, sg)
			continue
		}
		parts := strings.Split(sg.lit, sep)
		for i, p := range parts {
			if i > 0 {
				out = append(out, segsToValue(in, cur))
				cur = nil
			}
			if p != "" {
				cur = append(cur, seg{lit: p})
			}
		}
	}
	out = append(out, segsToValue(in, cur))
	return out
}

// symFields implements strings.Fields when no symbolic piece can contain white space (symbolic
// pieces are never empty).
func (in *Interp) symFields(s *SymStr) Value {
	if s.opaque {
		in.abort("unsupported: strings.Fields on opaque text")
	}
	var segs []seg
	flattenStr(s.t, &segs)
	out := Slice{}
	var cur []seg
	flush := func() {
		if len(cur) > 0 {
			out = append(out, segsToValue(in, cur))
			cur = nil
		}
	}
	for _, sg := range segs {
		if sg.atom != nil {
			for _, c := range []byte(" \t\n\r\v\f") {
				if atomMayContain(sg.atom, c) {
					in.abort("unsupported: strings.Fields: white space may occur inside a symbolic piece")
				}
			}
			cur = append(cur, sg)
			continue
		}
		start := -1
		for i := 0; i < len(sg.lit); i++ {
			c := sg.lit[i]
			if c >= 0x80 {
				in.abort("unsupported: strings.Fields on non-ASCII text")
			}
			if c == ' ' || c == '\t' || c == '\n' || c == '\r' || c == '\v' || c == '\f' {
				if start >= 0 {
					cur = append(cur, seg{lit: sg.lit[start:i]})
					start = -1
				}
				flush()
			} else if start < 0 {
				start = i
			}
		}
		if start >= 0 {
			cur = append(cur, seg{lit: sg.lit[start:]})
		}
	}
	flush()
	return out
}

func segsToTerm(segs []seg) *Term {
	var t *Term
	for _, sg := range segs {
		var p *Term
		if sg.atom == nil {
			p = litTerm(sg.lit)
		} else {
			p = sg.atom
		}
		if t == nil {
			t = p
		} else {
			t = App("cat", SStr, t, p)
		}
	}
	if t == nil {
		return litTerm("")
	}
	return t
}

// liftNestedIte rewrites a concatenation containing a choice piece into a choice of concatenations.
func liftNestedIte(t *Term) (*Term, bool) {
	if !(t.op == OApp && t.name == "cat") {
		return nil, false
	}
	var segs []seg
	flattenStr(t, &segs)
	for i, sg := range segs {
		if sg.atom != nil && sg.atom.op == OIte {
			mk := func(branch *Term) *Term {
				var parts []seg
				parts = append(parts, segs[:i]...)
				flattenStr(branch, &parts)
				for _, r := range segs[i+1:] {
					if r.atom == nil {
						flattenStr(litTerm(r.lit), &parts)
					} else {
						parts = append(parts, r)
					}
				}
				return segsToTerm(parts)
			}
			return Ite(sg.atom.args[0], mk(sg.atom.args[1]), mk(sg.atom.args[2])), true
		}
	}
	return nil, false
}

// canonStr normalises a string term: nested choices are lifted to the top and every choice-free
// concatenation is rebuilt from its flattened segment list (adjacent literals merged, left-nested).
func canonStr(t *Term) *Term {
	if t.op == OIte {
		return Ite(t.args[0], canonStr(t.args[1]), canonStr(t.args[2]))
	}
	if l, ok := liftNestedIte(t); ok {
		return canonStr(l)
	}
	if t.op == OApp && t.name == "cat" {
		var segs []seg
		flattenStr(t, &segs)
		return segsToTerm(segs)
	}
	return t
}
