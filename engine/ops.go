package main

import (
	"fmt"
	"go/token"
	"go/types"
	"math"
	"reflect"
	"sync"
	"unicode/utf8"

	"golang.org/x/tools/go/ssa"
)

var sizes = types.SizesFor("gc", "amd64")

func (in *Interp) unop(fr *frame, instr *ssa.UnOp, x Value) Value {
	switch instr.Op {
	case token.ARROW:
		return in.chanRecv(x.(*Chan), instr.CommaOk, underlying(instr.X.Type()).(*types.Chan).Elem())
	case token.SUB:
		switch x := x.(type) {
		case *Term:
			return BvNeg(x)
		case float64:
			return -x
		}
	case token.MUL:
		p := x.(*Value)
		if p == nil {
			in.rtPanic("invalid memory address or nil pointer dereference")
		}
		in.noteAccessDeep(p, false)
		return copyVal(*p)
	case token.NOT:
		return Not(x.(*Term))
	case token.XOR:
		return BvNot(x.(*Term))
	}
	panic(fmt.Sprintf("invalid unary op %s %T", instr.Op, x))
}

func (in *Interp) binop(op token.Token, tx, ty types.Type, x, y Value) Value {
	switch xv := x.(type) {
	case *Term:
		yv, ok := y.(*Term)
		if !ok {
			break
		}
		if xv.sort == SBool {
			switch op {
			case token.EQL:
				return Eq(xv, yv)
			case token.NEQ:
				return Not(Eq(xv, yv))
			}
			break
		}
		_, signed, _ := isIntType(tx)
		switch op {
		case token.ADD:
			return BvBin(OAdd, xv, yv)
		case token.SUB:
			return BvBin(OSub, xv, yv)
		case token.MUL:
			return BvBin(OMul, xv, yv)
		case token.QUO, token.REM:
			if !in.decide(Not(Eq(yv, BV(yv.sort, 0)))) {
				in.rtPanic("integer divide by zero")
			}
			o := OUDiv
			switch {
			case op == token.QUO && signed:
				o = OSDiv
			case op == token.REM && signed:
				o = OSRem
			case op == token.REM:
				o = OURem
			}
			return BvBin(o, xv, yv)
		case token.AND:
			return BvBin(OBAnd, xv, yv)
		case token.OR:
			return BvBin(OBOr, xv, yv)
		case token.XOR:
			return BvBin(OBXor, xv, yv)
		case token.AND_NOT:
			return BvBin(OBAnd, xv, BvNot(yv))
		case token.SHL, token.SHR:
			_, ysigned, _ := isIntType(ty)
			if ysigned {
				if yv.op == OConst {
					if yv.sval() < 0 {
						in.rtPanic("negative shift amount")
					}
				} else if in.decide(Cmp(OSlt, yv, BV(yv.sort, 0))) {
					in.rtPanic("negative shift amount")
				}
			}
			w := xv.sort
			o := OShl
			if op == token.SHR {
				o = OLshr
				if signed {
					o = OAshr
				}
			}
			y64 := Resize(yv, 64, false)
			big := Cmp(OUle, BV(64, uint64(w)), y64) // y >= w
			var over *Term
			if o == OAshr {
				over = BvBin(OAshr, xv, BV(w, uint64(w)-1))
			} else {
				over = BV(w, 0)
			}
			if big.IsTrue() {
				return over
			}
			r := BvBin(o, xv, Resize(y64, w, false))
			return Ite(big, over, r)
		case token.EQL:
			return Eq(xv, yv)
		case token.NEQ:
			return Not(Eq(xv, yv))
		case token.LSS:
			if signed {
				return Cmp(OSlt, xv, yv)
			}
			return Cmp(OUlt, xv, yv)
		case token.LEQ:
			if signed {
				return Cmp(OSle, xv, yv)
			}
			return Cmp(OUle, xv, yv)
		case token.GTR:
			if signed {
				return Cmp(OSlt, yv, xv)
			}
			return Cmp(OUlt, yv, xv)
		case token.GEQ:
			if signed {
				return Cmp(OSle, yv, xv)
			}
			return Cmp(OUle, yv, xv)
		}
	case float64:
		yv := y.(float64)
		if b, ok := underlying(tx).(*types.Basic); ok && b.Kind() == types.Float32 {
			switch op {
			case token.ADD:
				return float64(float32(xv) + float32(yv))
			case token.SUB:
				return float64(float32(xv) - float32(yv))
			case token.MUL:
				return float64(float32(xv) * float32(yv))
			case token.QUO:
				return float64(float32(xv) / float32(yv))
			}
		}
		switch op {
		case token.ADD:
			return xv + yv
		case token.SUB:
			return xv - yv
		case token.MUL:
			return xv * yv
		case token.QUO:
			return xv / yv
		case token.EQL:
			return Bool(xv == yv)
		case token.NEQ:
			return Bool(xv != yv)
		case token.LSS:
			return Bool(xv < yv)
		case token.LEQ:
			return Bool(xv <= yv)
		case token.GTR:
			return Bool(xv > yv)
		case token.GEQ:
			return Bool(xv >= yv)
		}
	case string, *SymStr:
		switch op {
		case token.ADD:
			return in.strConcat(x, y)
		case token.EQL:
			return in.strEq(x, y)
		case token.NEQ:
			return Not(in.strEq(x, y))
		case token.LSS:
			return in.strLess(x, y)
		case token.GTR:
			return in.strLess(y, x)
		case token.LEQ:
			return Not(in.strLess(y, x))
		case token.GEQ:
			return Not(in.strLess(x, y))
		}
	}
	switch op {
	case token.EQL:
		return in.eqVal(x, y)
	case token.NEQ:
		return Not(in.eqVal(x, y))
	}
	panic(fmt.Sprintf("invalid binary op: %T %s %T", x, op, y))
}

func isNilFunc(v Value) bool {
	switch v := v.(type) {
	case *Closure:
		return v == nil
	case *ssa.Function:
		return v == nil
	case *Native:
		return v == nil
	}
	return false
}

// eqVal is Go's == on two values of the same static type.
func (in *Interp) eqVal(x, y Value) *Term {
	switch x := x.(type) {
	case *Term:
		return Eq(x, y.(*Term))
	case string, *SymStr:
		return in.strEq(x, y)
	case float64:
		return Bool(x == y.(float64))
	case complex128:
		return Bool(x == y.(complex128))
	case *Value:
		return Bool(x == y.(*Value))
	case Struct:
		y := y.(Struct)
		r := tTrue
		for i := range x {
			r = And(r, in.eqVal(x[i], y[i]))
			if r.IsFalse() {
				return r
			}
		}
		return r
	case Array:
		y := y.(Array)
		r := tTrue
		for i := range x {
			r = And(r, in.eqVal(x[i], y[i]))
			if r.IsFalse() {
				return r
			}
		}
		return r
	case Iface:
		y := y.(Iface)
		if x.t == nil || y.t == nil {
			return Bool(x.t == nil && y.t == nil)
		}
		if !types.Identical(x.t, y.t) {
			return tFalse
		}
		if !types.Comparable(x.t) {
			panic(targetPanic{Iface{t: types.Typ[types.String], v: "runtime error: comparing uncomparable type " + x.t.String()}})
		}
		return in.eqVal(x.v, y.v)
	case *Map:
		return Bool(x == y.(*Map))
	case *Chan:
		return Bool(x == y.(*Chan))
	case Slice:
		return Bool((x == nil) == (y.(Slice) == nil))
	case UnsafePtr:
		return Bool(x.p == y.(UnsafePtr).p)
	case *Closure, *ssa.Function, *Native:
		return Bool(isNilFunc(x) == isNilFunc(y))
	case Opaque:
		return Bool(true)
	}
	panic(fmt.Sprintf("eqVal: unsupported %T", x))
}

func (in *Interp) conv(tDst, tSrc types.Type, x Value) Value {
	utSrc := underlying(tSrc)
	utDst := underlying(tDst)

	switch ut := utSrc.(type) {
	case *types.Pointer:
		if b, ok := utDst.(*types.Basic); ok && b.Kind() == types.UnsafePointer {
			return UnsafePtr{x}
		}
		return x
	case *types.Slice:
		switch d := utDst.(type) {
		case *types.Basic: // []byte / []rune -> string
			if d.Info()&types.IsString == 0 {
				break
			}
			xs := x.(Slice)
			if b, ok := underlying(ut.Elem()).(*types.Basic); ok && b.Kind() == types.Uint8 {
				if bs, ok := concBytes(xs); ok {
					return string(bs)
				}
				return in.symBytesToString(xs)
			}
			rs := make([]rune, len(xs))
			for i, e := range xs {
				c, ok := concInt(e)
				if !ok {
					in.abort("unsupported: symbolic []rune to string")
				}
				rs[i] = rune(c)
			}
			return string(rs)
		case *types.Array:
			xs := x.(Slice)
			if len(xs) < int(d.Len()) {
				in.rtPanic("cannot convert slice to array: length too short")
			}
			a := make(Array, d.Len())
			for i := range a {
				a[i] = copyVal(xs[i])
			}
			return a
		case *types.Slice:
			return x
		}
	case *types.Basic:
		if ut.Kind() == types.UnsafePointer {
			if _, ok := utDst.(*types.Pointer); ok {
				p := x.(UnsafePtr).p
				if p == nil {
					return (*Value)(nil)
				}
				return p
			}
			if b, ok := utDst.(*types.Basic); ok && b.Kind() == types.Uintptr {
				in.abort("unsupported: unsafe.Pointer to uintptr in %s", in.whereAmI())
			}
			return x
		}
		if ut.Info()&types.IsString != 0 {
			if d, ok := utDst.(*types.Slice); ok {
				switch s := x.(type) {
				case string:
					if b := underlying(d.Elem()).(*types.Basic); b.Kind() == types.Uint8 {
						return bytesToSlice([]byte(s))
					}
					rs := []rune(s)
					out := make(Slice, len(rs))
					for i, r := range rs {
						out[i] = BV(32, uint64(r))
					}
					return out
				case *SymStr:
					return in.symStringToBytes(s)
				}
			}
			if d, ok := utDst.(*types.Basic); ok && d.Info()&types.IsString != 0 {
				return x
			}
		}
		if ut.Info()&types.IsInteger != 0 {
			xt := x.(*Term)
			_, srcSigned := intWidth(ut)
			if d, ok := utDst.(*types.Basic); ok {
				switch {
				case d.Info()&types.IsInteger != 0:
					w, _ := intWidth(d)
					return Resize(xt, w, srcSigned)
				case d.Info()&types.IsFloat != 0:
					if xt.op != OConst {
						return in.symIntToFloat(xt, srcSigned)
					}
					var f float64
					if srcSigned {
						f = float64(xt.sval())
					} else {
						f = float64(xt.val)
					}
					if d.Kind() == types.Float32 {
						f = float64(float32(f))
					}
					return f
				case d.Info()&types.IsString != 0:
					if xt.op != OConst {
						in.abort("unsupported: symbolic rune to string")
					}
					return string(rune(xt.sval()))
				case d.Kind() == types.UnsafePointer:
					in.abort("unsupported: uintptr to unsafe.Pointer")
				}
			}
		}
		if ut.Info()&types.IsFloat != 0 {
			if d, ok := utDst.(*types.Basic); ok {
				switch f := x.(type) {
				case float64:
					switch {
					case d.Info()&types.IsInteger != 0:
						w, signed := intWidth(d)
						if signed {
							return BV(w, uint64(int64(f)))
						}
						if f >= 9.223372036854775808e18 {
							return BV(w, uint64(f))
						}
						return BV(w, uint64(int64(f)))
					case d.Info()&types.IsFloat != 0:
						if d.Kind() == types.Float32 {
							return float64(float32(f))
						}
						return f
					}
				case *SymFloat:
					if d.Info()&types.IsInteger != 0 {
						w, _ := intWidth(d)
						return in.symFloatToInt(f, w)
					}
					if d.Info()&types.IsFloat != 0 {
						return f
					}
				}
			}
		}
	case *types.Signature, *types.Map, *types.Chan, *types.Struct, *types.Array, *types.Interface:
		return x
	}
	panic(fmt.Sprintf("unsupported conversion: %s -> %s, dynamic type %T", tSrc, tDst, x))
}

// SymFloat carries an exact integer value in a float-typed SSA register (float64(int) of a symbolic int,
// or 2^k for symbolic k). Only conversions back to integers and the operations listed in floatOps are supported.
type SymFloat struct {
	t      *Term // 64-bit signed integer value
	pow2of *Term // if non-nil: value is 2^pow2of (pow2of: 64-bit), t unused
}

func (in *Interp) symIntToFloat(x *Term, signed bool) Value {
	return &SymFloat{t: Resize(x, 64, signed)}
}

func (in *Interp) symFloatToInt(f *SymFloat, w Sort) Value {
	if f.pow2of != nil {
		// int64(2^k): exact for 0 <= k <= 62; the caller must have established the range
		k := f.pow2of
		inRange := And(Cmp(OSle, BV(64, 0), k), Cmp(OSle, k, BV(64, 62)))
		if !in.decide(inRange) {
			in.abort("unsupported: float power of two outside 2^0..2^62 converted to integer")
		}
		return Resize(BvBin(OShl, BV(64, 1), k), w, false)
	}
	return Resize(f.t, w, true)
}

var appendCapCache sync.Map

// hostAppendCap mirrors the host runtime's growth policy for a slice of element size esz.
func hostAppendCap(l, c, add int, esz int64) int {
	if l+add <= c {
		return c
	}
	if esz <= 0 {
		return l + add
	}
	type key struct {
		l, c, add int
		esz       int64
	}
	k := key{l, c, add, esz}
	if v, ok := appendCapCache.Load(k); ok {
		return v.(int)
	}
	typ := reflect.SliceOf(reflect.ArrayOf(int(esz), reflect.TypeOf(byte(0))))
	s := reflect.MakeSlice(typ, l, c)
	s = reflect.AppendSlice(s, reflect.MakeSlice(typ, add, add))
	appendCapCache.Store(k, s.Cap())
	return s.Cap()
}

func (in *Interp) appendVals(s Slice, elems []Value, elemType types.Type) Slice {
	if len(elems) == 0 {
		return s
	}
	if len(s)+len(elems) <= cap(s) {
		n := len(s)
		s = s[:n+len(elems)]
		for i, e := range elems {
			s[n+i] = copyVal(e)
		}
		return s
	}
	nc := hostAppendCap(len(s), cap(s), len(elems), sizes.Sizeof(elemType))
	ns := make(Slice, len(s)+len(elems), nc)
	copy(ns, s)
	for i, e := range elems {
		ns[len(s)+i] = copyVal(e)
	}
	// zero the spare capacity so that later reslicing sees zero values
	spare := ns[len(ns):nc]
	for i := range spare {
		spare[i] = zero(elemType)
	}
	return ns
}

func (in *Interp) callBuiltin(caller *frame, pos token.Pos, fn *ssa.Builtin, args []Value) Value {
	switch fn.Name() {
	case "append":
		var s Slice
		if args[0] != nil {
			s = args[0].(Slice)
		}
		elemType := underlying(fn.Type().(*types.Signature).Params().At(0).Type()).(*types.Slice).Elem()
		switch a := args[1].(type) {
		case Slice:
			// copy first: the source may alias the destination
			tmp := make([]Value, len(a))
			copy(tmp, a)
			if len(tmp) == 0 {
				return s
			}
			return in.appendVals(s, tmp, elemType)
		case string:
			return in.appendVals(s, bytesToSlice([]byte(a)), elemType)
		case *SymStr:
			return in.appendVals(s, in.symStringToBytes(a), elemType)
		case nil:
			return s
		}
		panic(fmt.Sprintf("append: unexpected %T", args[1]))

	case "copy":
		dst := args[0].(Slice)
		switch src := args[1].(type) {
		case Slice:
			n := len(src)
			if len(dst) < n {
				n = len(dst)
			}
			tmp := make([]Value, n)
			for i := 0; i < n; i++ {
				tmp[i] = copyVal(src[i])
			}
			copy(dst, tmp)
			return mkInt(int64(n))
		case string:
			n := copy(dst, bytesToSlice([]byte(src)))
			return mkInt(int64(n))
		}
		panic(fmt.Sprintf("copy: unexpected %T", args[1]))

	case "close":
		in.chanClose(args[0].(*Chan))
		return nil

	case "delete":
		in.mapDelete(args[0].(*Map), args[1])
		return nil

	case "clear":
		switch x := args[0].(type) {
		case *Map:
			if x != nil {
				for _, e := range x.order {
					e.deleted = true
				}
				x.reset()
			}
		case Slice:
			et := underlying(fn.Type().(*types.Signature).Params().At(0).Type()).(*types.Slice).Elem()
			for i := range x {
				x[i] = zero(et)
			}
		}
		return nil

	case "print", "println":
		return nil

	case "len":
		switch x := args[0].(type) {
		case string:
			return mkInt(int64(len(x)))
		case *SymStr:
			return in.symStrLen(x)
		case Array:
			return mkInt(int64(len(x)))
		case *Value:
			if x == nil {
				return mkInt(int64(underlying(fn.Type().(*types.Signature).Params().At(0).Type().(*types.Pointer).Elem()).(*types.Array).Len()))
			}
			return mkInt(int64(len((*x).(Array))))
		case Slice:
			return mkInt(int64(len(x)))
		case *Map:
			return mkInt(int64(x.Len()))
		case *Chan:
			return mkInt(int64(x.Len()))
		}
		panic(fmt.Sprintf("len: illegal operand: %T", args[0]))

	case "cap":
		switch x := args[0].(type) {
		case Array:
			return mkInt(int64(len(x)))
		case *Value:
			return mkInt(int64(len((*x).(Array))))
		case Slice:
			return mkInt(int64(cap(x)))
		case *Chan:
			return mkInt(int64(x.Cap()))
		}
		panic(fmt.Sprintf("cap: illegal operand: %T", args[0]))

	case "min", "max":
		sig := fn.Type().(*types.Signature)
		t := sig.Params().At(0).Type()
		r := args[0]
		for _, a := range args[1:] {
			var lt *Term
			if fn.Name() == "min" {
				lt = asTerm(in.binop(token.LSS, t, t, a, r))
			} else {
				lt = asTerm(in.binop(token.GTR, t, t, a, r))
			}
			if at, ok := a.(*Term); ok {
				r = Ite(lt, at, r.(*Term))
			} else if in.decide(lt) {
				r = a
			}
		}
		return r

	case "panic":
		panic(targetPanic{args[0]})

	case "recover":
		return in.doRecover(caller)

	case "ssa:wrapnilchk":
		recv := args[0]
		if p, ok := recv.(*Value); ok && p == nil {
			in.rtPanic(fmt.Sprintf("value method %s.%s called using nil pointer", valString(args[1]), valString(args[2])))
		}
		return recv

	case "ssa:deferstack":
		in.abort("unsupported: ssa:deferstack")
	}
	panic("unknown built-in: " + fn.Name())
}

var _ = math.Pow
var _ = utf8.RuneLen
