package main

import (
	"fmt"
	"go/types"
	"unicode/utf8"

	"golang.org/x/tools/go/ssa"
)

type mapEntry struct {
	key, val Value
	ck       string
	isConc   bool
	deleted  bool
}

// Map is an insertion-ordered map whose keys may be symbolic. Key (in)equalities are decided
// at lookup/insert, so the size is always concrete.
type Map struct {
	t     *types.Map
	order []*mapEntry
	conc  map[string]*mapEntry
	nsym  int
	n     int
}

func newMap(t *types.Map) *Map {
	return &Map{t: t, conc: map[string]*mapEntry{}}
}

func (m *Map) Len() int {
	if m == nil {
		return 0
	}
	return m.n
}

func (m *Map) reset() {
	m.order = nil
	m.conc = map[string]*mapEntry{}
	m.nsym = 0
	m.n = 0
}

func (in *Interp) mapFind(m *Map, k Value) *mapEntry {
	if m == nil {
		return nil
	}
	in.noteMapAccess(m, false)
	ks, isConc := concKey(k)
	if isConc {
		if e := m.conc[ks]; e != nil {
			return e
		}
		if m.nsym == 0 {
			return nil
		}
	}
	for _, e := range m.order {
		if e.deleted || (isConc && e.isConc) {
			continue
		}
		if in.decide(in.eqVal(k, e.key)) {
			return e
		}
	}
	return nil
}

func (in *Interp) mapInsert(m *Map, k, v Value) {
	in.noteMapAccess(m, true)
	if e := in.mapFind(m, k); e != nil {
		e.val = v
		return
	}
	e := &mapEntry{key: copyVal(k), val: v}
	e.ck, e.isConc = concKey(k)
	if e.isConc {
		m.conc[e.ck] = e
	} else {
		m.nsym++
	}
	m.order = append(m.order, e)
	m.n++
}

func (in *Interp) mapDelete(m *Map, k Value) {
	if m == nil {
		return
	}
	in.noteMapAccess(m, true)
	if e := in.mapFind(m, k); e != nil {
		e.deleted = true
		if e.isConc {
			delete(m.conc, e.ck)
		} else {
			m.nsym--
		}
		m.n--
	}
}

func (in *Interp) lookup(instr *ssa.Lookup, x, idx Value) Value {
	switch x := x.(type) {
	case *Map:
		var v Value
		ok := false
		if e := in.mapFind(x, idx); e != nil {
			v, ok = copyVal(e.val), true
		} else {
			v = zero(underlying(instr.X.Type()).(*types.Map).Elem())
		}
		if instr.CommaOk {
			return Tuple{v, Bool(ok)}
		}
		return v
	case string:
		i := in.index(idx, len(x))
		return mkByte(x[i])
	case *SymStr:
		in.abort("unsupported: index into symbolic string")
	}
	panic(fmt.Sprintf("unexpected x type in Lookup: %T", x))
}

// ---- iteration

type iter interface {
	next(in *Interp) Tuple
}

type stringIter struct {
	s   string
	pos int
}

func (it *stringIter) next(in *Interp) Tuple {
	if it.pos >= len(it.s) {
		return Tuple{tFalse, mkInt(0), BV(32, 0)}
	}
	r, n := utf8.DecodeRuneInString(it.s[it.pos:])
	i := it.pos
	it.pos += n
	return Tuple{tTrue, mkInt(int64(i)), BV(32, uint64(r))}
}

type mapIter struct {
	m       *Map
	pos     int
	visited map[*mapEntry]bool
	mode    int
	rev     bool
	started bool
	rot     []*mapEntry
}

func (it *mapIter) seen(e *mapEntry) bool {
	for _, x := range it.rot {
		if x == e {
			return true
		}
	}
	return false
}

const (
	orderInsertion = 0
	orderFwdRev    = 1 // insertion order or its reverse, one choice per path
	orderAll       = 2 // every permutation, chosen per iteration
	orderRotate    = 3 // a rotation of insertion order, chosen per iteration (what small Go maps really do)
)

func (it *mapIter) next(in *Interp) Tuple {
	m := it.m
	zk := func() Tuple { return Tuple{tFalse, zero(m.t.Key()), zero(m.t.Elem())} }
	if m == nil {
		return Tuple{tFalse, nil, nil}
	}
	switch it.mode {
	case orderAll:
		var rem []*mapEntry
		for _, e := range m.order {
			if !e.deleted && !it.visited[e] {
				rem = append(rem, e)
			}
		}
		if len(rem) == 0 {
			return zk()
		}
		k := 0
		if len(rem) > 1 {
			k = in.choose(len(rem), "maporder")
		}
		e := rem[k]
		it.visited[e] = true
		return Tuple{tTrue, copyVal(e.key), copyVal(e.val)}
	case orderRotate:
		if !it.started {
			it.started = true
			var live []*mapEntry
			for _, e := range m.order {
				if !e.deleted {
					live = append(live, e)
				}
			}
			k := 0
			if len(live) > 1 {
				k = in.choose(len(live), "maporder")
			}
			it.rot = append(append([]*mapEntry{}, live[k:]...), live[:k]...)
		}
		for it.pos < len(it.rot) {
			e := it.rot[it.pos]
			it.pos++
			if !e.deleted {
				return Tuple{tTrue, copyVal(e.key), copyVal(e.val)}
			}
		}
		// entries inserted during iteration
		for _, e := range m.order {
			if !e.deleted && !it.seen(e) {
				it.rot = append(it.rot, e)
				it.pos++
				return Tuple{tTrue, copyVal(e.key), copyVal(e.val)}
			}
		}
		return zk()
	case orderFwdRev:
		if !it.started {
			it.started = true
			it.rev = in.pathBit("maporder-rev")
			if it.rev {
				it.pos = len(m.order) - 1
			}
		}
		if it.rev {
			for it.pos >= len(m.order) {
				it.pos--
			}
			for it.pos >= 0 {
				e := m.order[it.pos]
				it.pos--
				if !e.deleted {
					return Tuple{tTrue, copyVal(e.key), copyVal(e.val)}
				}
			}
			return zk()
		}
	}
	for it.pos < len(m.order) {
		e := m.order[it.pos]
		it.pos++
		if !e.deleted {
			return Tuple{tTrue, copyVal(e.key), copyVal(e.val)}
		}
	}
	return zk()
}

func (in *Interp) rangeIter(x Value, t types.Type) iter {
	switch x := x.(type) {
	case *Map:
		if x == nil {
			return &mapIter{m: nil}
		}
		in.noteMapAccess(x, false)
		return &mapIter{m: x, mode: in.path.mapOrder, visited: map[*mapEntry]bool{}}
	case string:
		return &stringIter{s: x}
	case *SymStr:
		in.abort("unsupported: range over symbolic string")
	}
	panic(fmt.Sprintf("cannot range over %T", x))
}
