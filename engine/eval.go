package main

// Evaluation of terms under a (partial) model of the nondet variables.
// Variables without a value evaluate to their recorded default (fresh unconstrained
// variables can take any value). Terms containing uninterpreted applications or
// widths above 64 bits are not evaluable.

type Model struct {
	vals map[string]uint64
	memo map[*Term]evalRes
	apps map[uint64][]appVal // values of uninterpreted applications fetched from the solver model
}

type appVal struct {
	t *Term
	v uint64
}

func (m *Model) clone() *Model {
	c := &Model{vals: make(map[string]uint64, len(m.vals)+1), memo: map[*Term]evalRes{}, apps: m.apps}
	for k, v := range m.vals {
		c.vals[k] = v
	}
	return c
}

func (m *Model) appValue(t *Term) (uint64, bool) {
	for _, a := range m.apps[t.Hash()] {
		if deepSame(a.t, t) {
			return a.v, true
		}
	}
	return 0, false
}

type evalRes struct {
	v  uint64
	ok bool
}

func NewModel(vals map[string]uint64) *Model {
	if vals == nil {
		vals = map[string]uint64{}
	}
	return &Model{vals: vals, memo: map[*Term]evalRes{}}
}

func (m *Model) Eval(t *Term) (uint64, bool) {
	switch t.op {
	case OConst:
		return t.val, true
	case OVar:
		if t.sort == SStr || t.sort > 64 {
			return 0, false
		}
		return m.vals[t.name] & maskOrBool(t.sort), true
	}
	if r, ok := m.memo[t]; ok {
		return r.v, r.ok
	}
	v, ok := m.eval1(t)
	m.memo[t] = evalRes{v, ok}
	return v, ok
}

func maskOrBool(s Sort) uint64 {
	if s == SBool {
		return 1
	}
	return mask(s)
}

func (m *Model) eval1(t *Term) (uint64, bool) {
	if t.op == OApp && t.sort != SStr && t.sort <= 64 {
		return m.appValue(t)
	}
	if t.sort > 64 || t.sort == SStr || t.op == OApp {
		return 0, false
	}
	// short-circuit boolean ops so that partial evaluability is kept where possible
	switch t.op {
	case OAnd:
		a, aok := m.Eval(t.args[0])
		if aok && a == 0 {
			return 0, true
		}
		b, bok := m.Eval(t.args[1])
		if bok && b == 0 {
			return 0, true
		}
		return a & b, aok && bok
	case OOr:
		a, aok := m.Eval(t.args[0])
		if aok && a == 1 {
			return 1, true
		}
		b, bok := m.Eval(t.args[1])
		if bok && b == 1 {
			return 1, true
		}
		return a | b, aok && bok
	case OIte:
		c, ok := m.Eval(t.args[0])
		if !ok {
			return 0, false
		}
		if c == 1 {
			return m.Eval(t.args[1])
		}
		return m.Eval(t.args[2])
	}
	var av [3]uint64
	for i, a := range t.args {
		if a.sort > 64 {
			return 0, false
		}
		v, ok := m.Eval(a)
		if !ok {
			return 0, false
		}
		av[i] = v
	}
	switch t.op {
	case ONot:
		return av[0] ^ 1, true
	case OEq:
		if av[0] == av[1] {
			return 1, true
		}
		return 0, true
	case OBNot:
		return ^av[0] & mask(t.sort), true
	case ONeg:
		return -av[0] & mask(t.sort), true
	case OUlt, OUle, OSlt, OSle:
		a := &Term{op: OConst, sort: t.args[0].sort, val: av[0]}
		b := &Term{op: OConst, sort: t.args[0].sort, val: av[1]}
		var r bool
		switch t.op {
		case OUlt:
			r = av[0] < av[1]
		case OUle:
			r = av[0] <= av[1]
		case OSlt:
			r = a.sval() < b.sval()
		case OSle:
			r = a.sval() <= b.sval()
		}
		if r {
			return 1, true
		}
		return 0, true
	case OConcat:
		return (av[0]<<uint(t.args[1].sort) | av[1]) & mask(t.sort), true
	case OExtract:
		return (av[0] >> uint(t.lo)) & mask(t.sort), true
	case OZext:
		return av[0], true
	case OSext:
		a := &Term{op: OConst, sort: t.args[0].sort, val: av[0]}
		return uint64(a.sval()) & mask(t.sort), true
	}
	if v, ok := binFold(t.op, t.sort, av[0], av[1]); ok {
		return v, true
	}
	return 0, false
}
