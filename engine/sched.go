package main

import (
	"fmt"
	"go/types"
	"sync"

	"golang.org/x/tools/go/ssa"
)

// Cooperative scheduler: every interpreted goroutine runs on its own native goroutine, but only the one
// holding the baton executes. Context switches happen only at synchronisation operations (channel
// operations, select, mutex/cond operations, go statements, verifrt.Yield); which runnable goroutine
// continues is a decision of the path (bounded by a preemption budget).

type goroutine struct {
	id       int
	resume   chan struct{}
	blocked  func() bool // nil = runnable
	why      string
	done     bool
	depth    int
	curFrame *frame
	locks    map[*Value]bool
	wlocks   map[*Value]bool // locks held for writing
}

type killGoroutine struct{}

type lockState struct {
	holder  *goroutine
	readers map[*goroutine]int
	waitW   int // writers waiting for the lock: new readers queue behind them (sync.RWMutex)
}

type condWaiter struct {
	g     *goroutine
	woken bool
}

type scheduler struct {
	in       *Interp
	gs       []*goroutine
	cur      *goroutine
	mainG    *goroutine
	fatal    interface{}
	killed   bool
	preempts int
	wg       sync.WaitGroup
	timers   []*Chan
	locks    map[*Value]*lockState
	conds    map[*Value][]*condWaiter
	accesses map[interface{}]*accessInfo
	sleepGen int
}

var maxPreempts = 1

func (in *Interp) ensureSched() *scheduler {
	if in.sched == nil {
		s := &scheduler{in: in, locks: map[*Value]*lockState{}, conds: map[*Value][]*condWaiter{}, accesses: map[interface{}]*accessInfo{}}
		g := &goroutine{id: 0, resume: make(chan struct{}, 1), locks: map[*Value]bool{}, wlocks: map[*Value]bool{}}
		s.gs = []*goroutine{g}
		s.cur = g
		s.mainG = g
		in.sched = s
		in.gor = g
	}
	return in.sched
}

func (s *scheduler) runnable() []*goroutine {
	collect := func() []*goroutine {
		var out []*goroutine
		for _, g := range s.gs {
			if g.done {
				continue
			}
			if g.blocked == nil || g.blocked() {
				out = append(out, g)
			}
		}
		return out
	}
	out := collect()
	if len(out) == 0 {
		// everybody is blocked, somebody in time.Sleep: time passes
		for _, g := range s.gs {
			if !g.done && g.why == "sleep" {
				s.sleepGen++
				return collect()
			}
		}
	}
	return out
}

// yield gives other goroutines a chance to run. blocked != nil: the current goroutine cannot continue
// until blocked() holds.
func (s *scheduler) yield(blocked func() bool, why string) {
	in := s.in
	g := s.cur
	g.blocked = blocked
	g.why = why
	rs := s.runnable()
	if len(rs) == 0 {
		s.deadlock()
		return
	}
	// the current goroutine, if runnable, is option 0 (no preemption)
	var opts []*goroutine
	selfRunnable := false
	for _, r := range rs {
		if r == g {
			selfRunnable = true
		}
	}
	if selfRunnable {
		opts = append(opts, g)
		if s.preempts < maxPreempts {
			for _, r := range rs {
				if r != g {
					opts = append(opts, r)
				}
			}
		}
	} else {
		opts = rs
	}
	next := opts[0]
	if len(opts) > 1 {
		next = opts[in.choose(len(opts), "sched")]
	}
	if next == g {
		g.blocked = nil
		return
	}
	if selfRunnable {
		s.preempts++
	}
	s.switchTo(next)
	g.blocked = nil
}

// switchTo hands the baton to next and parks the current goroutine until it is resumed.
func (s *scheduler) switchTo(next *goroutine) {
	in := s.in
	g := s.cur
	g.depth, g.curFrame = in.depth, in.curFrame
	s.cur = next
	in.gor = next
	in.depth, in.curFrame = next.depth, next.curFrame
	next.blocked = nil
	next.resume <- struct{}{}
	s.park(g)
}

func (s *scheduler) park(g *goroutine) {
	<-g.resume
	in := s.in
	if g == s.mainG {
		if s.fatal != nil {
			f := s.fatal
			s.fatal = nil
			s.cur = g
			in.gor = g
			in.depth, in.curFrame = g.depth, g.curFrame
			panic(f)
		}
		return
	}
	if s.killed {
		panic(killGoroutine{})
	}
}

// deadlock: nobody can run.
func (s *scheduler) deadlock() {
	msg := "deadlock: all goroutines are blocked:"
	for _, g := range s.gs {
		if !g.done {
			msg += fmt.Sprintf(" g%d(%s)", g.id, g.why)
		}
	}
	s.raiseOnMain(deadlockPanic{msg})
}

type deadlockPanic struct{ msg string }

// raiseOnMain makes the main (worker) goroutine panic with p.
func (s *scheduler) raiseOnMain(p interface{}) {
	if s.cur == s.mainG {
		panic(p)
	}
	g := s.cur
	s.fatal = p
	g.depth, g.curFrame = s.in.depth, s.in.curFrame
	s.mainG.resume <- struct{}{}
	// park forever (until the path is torn down)
	<-g.resume
	panic(killGoroutine{})
}

func (in *Interp) goStmt(fr *frame, instr *ssa.Go, fn Value, args []Value) {
	s := in.ensureSched()
	if len(s.gs) > 8 {
		in.abort("unwinding: more than 8 goroutines")
	}
	g := &goroutine{id: len(s.gs), resume: make(chan struct{}, 1), locks: map[*Value]bool{}, wlocks: map[*Value]bool{}}
	s.gs = append(s.gs, g)
	s.wg.Add(1)
	go func() {
		defer s.wg.Done()
		<-g.resume
		if s.killed {
			return
		}
		defer func() {
			r := recover()
			g.done = true
			if _, ok := r.(killGoroutine); ok {
				return
			}
			if r != nil {
				// engine-level event or uncaught Go panic in this goroutine: deliver it to the worker
				s.fatal = r
				s.mainG.resume <- struct{}{}
				return
			}
			// normal termination: hand the baton to somebody else
			rs := s.runnable()
			if len(rs) == 0 {
				if !s.mainG.done {
					msg := "deadlock: all goroutines are blocked after one finished:"
					for _, x := range s.gs {
						if !x.done {
							msg += fmt.Sprintf(" g%d(%s)", x.id, x.why)
						}
					}
					s.fatal = deadlockPanic{msg}
					s.mainG.resume <- struct{}{}
				}
				return
			}
			next := rs[0]
			if len(rs) > 1 {
				// choosing among several runnable goroutines is a decision; it must be taken on a
				// goroutine that may panic with engine events: do it here under recover
				func() {
					defer func() {
						if r2 := recover(); r2 != nil {
							s.fatal = r2
							next = s.mainG
						}
					}()
					next = rs[in.choose(len(rs), "sched")]
				}()
			}
			s.cur = next
			in.gor = next
			in.depth, in.curFrame = next.depth, next.curFrame
			next.blocked = nil
			next.resume <- struct{}{}
		}()
		in.depth = 0
		in.call(nil, instr.Pos(), fn, args)
	}()
	// starting a goroutine is a scheduling point
	s.yield(nil, "go")
}

func (s *scheduler) shutdown() {
	s.killed = true
	for _, g := range s.gs {
		if g != s.mainG && !g.done {
			select {
			case g.resume <- struct{}{}:
			default:
			}
		}
	}
	s.wg.Wait()
}

func (s *scheduler) finishMain(in *Interp) {
	s.mainG.done = true
}

// ---- channels

type chanItem struct {
	v     Value
	taken bool
}

type Chan struct {
	buf     []Value
	cap     int
	closed  bool
	sendq   []*chanItem // pending unbuffered sends
	recvw   int         // goroutines currently blocked receiving on this channel
	isTimer bool
	fired   bool
}

func (c *Chan) Len() int {
	if c == nil {
		return 0
	}
	return len(c.buf)
}
func (c *Chan) Cap() int {
	if c == nil {
		return 0
	}
	return c.cap
}

func (in *Interp) makeChan(n int) *Chan { return &Chan{cap: n} }

func (c *Chan) canRecv() bool { return len(c.buf) > 0 || len(c.sendq) > 0 || c.closed }

func (c *Chan) doRecv(elem types.Type) (Value, bool) {
	if len(c.buf) > 0 {
		v := c.buf[0]
		c.buf = c.buf[1:]
		// a blocked buffered sender may now proceed (handled by its predicate)
		return v, true
	}
	if len(c.sendq) > 0 {
		it := c.sendq[0]
		c.sendq = c.sendq[1:]
		it.taken = true
		return it.v, true
	}
	return zero(elem), false // closed
}

func (in *Interp) chanSend(c *Chan, v Value) {
	if c == nil {
		in.ensureSched().yield(func() bool { return false }, "send on nil channel")
		return
	}
	if c.closed {
		in.rtPanic("send on closed channel")
	}
	v = copyVal(v)
	if c.cap > 0 {
		if len(c.buf) >= c.cap {
			if in.sched == nil {
				in.ensureSched()
			}
			in.sched.yield(func() bool { return len(c.buf) < c.cap || c.closed }, "chan send (buffer full)")
			if c.closed {
				in.rtPanic("send on closed channel")
			}
		}
		c.buf = append(c.buf, v)
		if in.sched != nil {
			in.sched.yield(nil, "chan send")
		}
		return
	}
	// unbuffered: rendezvous
	s := in.ensureSched()
	it := &chanItem{v: v}
	c.sendq = append(c.sendq, it)
	s.yield(func() bool { return it.taken || c.closed }, "chan send (unbuffered)")
	if !it.taken {
		in.rtPanic("send on closed channel")
	}
}

func (in *Interp) chanRecv(c *Chan, commaOk bool, elem types.Type) Value {
	if c == nil {
		in.ensureSched().yield(func() bool { return false }, "receive on nil channel")
		return nil
	}
	if !c.canRecv() {
		s := in.ensureSched()
		c.recvw++
		s.yield(func() bool { return c.canRecv() }, "chan receive")
		c.recvw--
	}
	v, ok := c.doRecv(elem)
	if in.sched != nil {
		in.sched.yield(nil, "chan receive done")
	}
	if commaOk {
		return Tuple{v, Bool(ok)}
	}
	return v
}

func (in *Interp) chanClose(c *Chan) {
	if c == nil {
		in.rtPanic("close of nil channel")
	}
	if c.closed {
		in.rtPanic("close of closed channel")
	}
	c.closed = true
}

func (in *Interp) selectOp(fr *frame, instr *ssa.Select) Value {
	type st struct {
		ch   *Chan
		send bool
	}
	var states []st
	for _, s := range instr.States {
		ch, _ := fr.get(s.Chan).(*Chan)
		states = append(states, st{ch, s.Dir != types.RecvOnly})
	}
	readyList := func() []int {
		var r []int
		for i, s := range states {
			if s.ch == nil {
				continue
			}
			if s.send {
				if s.ch.closed || (s.ch.cap > 0 && len(s.ch.buf) < s.ch.cap) || (s.ch.cap == 0 && s.ch.recvw > 0) {
					r = append(r, i)
				}
			} else if s.ch.canRecv() {
				r = append(r, i)
			}
		}
		return r
	}
	ready := readyList()
	if len(ready) == 0 && instr.Blocking {
		sc := in.ensureSched()
		for _, s := range states {
			if s.ch != nil && !s.send {
				s.ch.recvw++
			}
		}
		sc.yield(func() bool { return len(readyList()) > 0 }, "select")
		for _, s := range states {
			if s.ch != nil && !s.send {
				s.ch.recvw--
			}
		}
		ready = readyList()
	}
	chosen := -1
	if len(ready) > 0 {
		chosen = ready[in.choose(len(ready), "select")]
	}
	r := Tuple{mkInt(int64(chosen)), tFalse}
	for i, s := range instr.States {
		if s.Dir != types.RecvOnly {
			if i == chosen {
				ch := states[i].ch
				if ch.closed {
					in.rtPanic("send on closed channel")
				}
				v := copyVal(fr.get(s.Send))
				if ch.cap > 0 {
					ch.buf = append(ch.buf, v)
				} else {
					ch.sendq = append(ch.sendq, &chanItem{v: v})
				}
			}
			continue
		}
		elem := underlying(s.Chan.Type()).(*types.Chan).Elem()
		if i == chosen {
			v, ok := states[i].ch.doRecv(elem)
			r[1] = Bool(ok)
			r = append(r, v)
		} else {
			r = append(r, zero(elem))
		}
	}
	if in.sched != nil && chosen >= 0 {
		in.sched.yield(nil, "select done")
	}
	return r
}

// ---- timers (environment): time.After / time.NewTimer channels fire only when the harness says so

func (in *Interp) newTimerChan() *Chan {
	s := in.ensureSched()
	c := &Chan{cap: 1, isTimer: true}
	s.timers = append(s.timers, c)
	return c
}

func (in *Interp) pendingTimers() []*Chan {
	if in.sched == nil {
		return nil
	}
	var out []*Chan
	for _, t := range in.sched.timers {
		if !t.fired {
			out = append(out, t)
		}
	}
	return out
}

// ---- mutexes and condition variables

func (in *Interp) lockOf(m *Value) *lockState {
	s := in.ensureSchedLite()
	l := s.locks[m]
	if l == nil {
		l = &lockState{readers: map[*goroutine]int{}}
		s.locks[m] = l
	}
	return l
}

// ensureSchedLite creates the scheduler bookkeeping without requiring a second goroutine.
func (in *Interp) ensureSchedLite() *scheduler { return in.ensureSched() }

func (in *Interp) mutexLock(m *Value, read bool) {
	l := in.lockOf(m)
	s := in.sched
	g := s.cur
	free := func() bool {
		if read {
			// a pending writer blocks new readers, also a reader that already holds the lock
			return l.holder == nil && l.waitW == 0
		}
		return l.holder == nil && len(l.readers) == 0
	}
	if len(s.gs) > 1 {
		s.yield(nil, "lock")
	}
	if !free() {
		if l.holder == g || (!read && l.readers[g] > 0 && len(l.readers) == 1 && l.holder == nil) {
			s.raiseOnMain(deadlockPanic{"deadlock: goroutine locks a mutex it already holds"})
		}
		if !read {
			l.waitW++
		}
		s.yield(free, "mutex lock")
		if !read {
			l.waitW--
		}
	}
	if read {
		l.readers[g]++
	} else {
		l.holder = g
		g.wlocks[m] = true
	}
	g.locks[m] = true
}

func (in *Interp) mutexUnlock(m *Value, read bool) {
	l := in.lockOf(m)
	s := in.sched
	g := s.cur
	if read {
		// RUnlock by any reader
		if l.readers[g] > 0 {
			l.readers[g]--
			if l.readers[g] == 0 {
				delete(l.readers, g)
			}
		} else {
			for k := range l.readers {
				l.readers[k]--
				if l.readers[k] == 0 {
					delete(l.readers, k)
				}
				break
			}
		}
	} else {
		if l.holder == nil {
			in.rtPanic("sync: unlock of unlocked mutex")
		}
		l.holder = nil
		delete(g.wlocks, m)
	}
	if l.holder == nil && len(l.readers) == 0 {
		delete(g.locks, m)
	}
}

func (in *Interp) condWait(fr *frame, c *Value) {
	s := in.ensureSched()
	st := (*c).(Struct)
	// sync.Cond{noCopy, L Locker, notify, checker}
	var L Iface
	for _, f := range st {
		if itf, ok := f.(Iface); ok {
			L = itf
			break
		}
	}
	w := &condWaiter{g: s.cur}
	s.conds[c] = append(s.conds[c], w)
	in.invoke(fr, L, "Unlock")
	s.yield(func() bool { return w.woken }, "cond wait")
	in.invoke(fr, L, "Lock")
}

func (in *Interp) condSignal(c *Value, all bool) {
	s := in.ensureSched()
	ws := s.conds[c]
	for i, w := range ws {
		if !w.woken {
			w.woken = true
			if !all {
				s.conds[c] = ws[i+1:]
				return
			}
		}
	}
	s.conds[c] = nil
}

// ---- lockset analysis (Eraser style) for tracked objects

type accessInfo struct {
	lockset map[*Value]bool // intersection of locks held at every access so far (nil = not yet accessed)
	writer  bool
	gs      map[int]bool
	first   string
}

func (in *Interp) noteAccess(p *Value, write bool) {
	s := in.sched
	if s == nil || len(s.gs) < 2 || in.tracked == nil || !in.tracked[p] {
		return
	}
	in.noteLoc(p, write)
}

// noteAccessDeep records an access to the location and to every field / element inside it (a store
// or load of an aggregate touches all of its parts).
func (in *Interp) noteAccessDeep(p *Value, write bool) {
	s := in.sched
	if s == nil || len(s.gs) < 2 || in.tracked == nil {
		return
	}
	var rec func(q *Value, d int)
	rec = func(q *Value, d int) {
		if in.tracked[q] {
			in.noteLoc(q, write)
		}
		if d > 4 {
			return
		}
		switch x := (*q).(type) {
		case Struct:
			for i := range x {
				rec(&x[i], d+1)
			}
		case Array:
			for i := range x {
				rec(&x[i], d+1)
			}
		}
	}
	rec(p, 0)
}

func (in *Interp) noteMapAccess(m *Map, write bool) {
	s := in.sched
	if s == nil || len(s.gs) < 2 || in.trackedMaps == nil || !in.trackedMaps[m] {
		return
	}
	in.noteLoc(m, write)
}

func (in *Interp) noteLoc(p interface{}, write bool) {
	s := in.sched
	g := s.cur
	a := s.accesses[p]
	if a == nil {
		a = &accessInfo{gs: map[int]bool{}}
		s.accesses[p] = a
	}
	// a write is protected only by locks held for writing; a read by locks held in any mode
	held := g.locks
	if write {
		held = g.wlocks
	}
	if a.lockset == nil {
		a.lockset = map[*Value]bool{}
		for l := range held {
			a.lockset[l] = true
		}
	} else {
		for l := range a.lockset {
			if !held[l] {
				delete(a.lockset, l)
			}
		}
	}
	a.gs[g.id] = true
	a.writer = a.writer || write
	if len(a.gs) > 1 && a.writer && len(a.lockset) == 0 && in.raceReport == "" {
		where := ""
		if in.curFrame != nil {
			where = in.curFrame.fi.name
		}
		in.raceReport = "data race: a tracked location is accessed by several goroutines, at least once for writing, with no common lock (last access in " + where + ")"
	}
}
