package main

import (
	"go/types"

	"golang.org/x/tools/go/ssa"
)

// Scheduler placeholder (goroutines, channels, locks). Single-threaded semantics for now.

type goroutine struct{ id int }

type scheduler struct{}

func (s *scheduler) shutdown()            {}
func (s *scheduler) finishMain(in *Interp) {}

type Chan struct {
	buf    []Value
	cap    int
	closed bool
}

func (c *Chan) Len() int {
	if c == nil {
		return 0
	}
	return len(c.buf)
}
func (c *Chan) Cap() int {
	if c == nil {
		return 0
	}
	return c.cap
}

func (in *Interp) makeChan(n int) *Chan { return &Chan{cap: n} }

func (in *Interp) chanSend(c *Chan, v Value) {
	if c == nil {
		in.abort("deadlock: send on nil channel")
	}
	if c.closed {
		in.rtPanic("send on closed channel")
	}
	if len(c.buf) >= c.cap {
		in.abort("unsupported: blocking channel send (scheduler not active)")
	}
	c.buf = append(c.buf, copyVal(v))
}

func (in *Interp) chanRecv(c *Chan, commaOk bool, elem types.Type) Value {
	if c == nil {
		in.abort("deadlock: receive on nil channel")
	}
	var v Value
	ok := true
	if len(c.buf) > 0 {
		v = c.buf[0]
		c.buf = c.buf[1:]
	} else if c.closed {
		v = zero(elem)
		ok = false
	} else {
		in.abort("unsupported: blocking channel receive (scheduler not active)")
	}
	if commaOk {
		return Tuple{v, Bool(ok)}
	}
	return v
}

func (in *Interp) chanClose(c *Chan) {
	if c.closed {
		in.rtPanic("close of closed channel")
	}
	c.closed = true
}

func (in *Interp) selectOp(fr *frame, instr *ssa.Select) Value {
	in.abort("unsupported: select (scheduler not active)")
	return nil
}

func (in *Interp) goStmt(fr *frame, instr *ssa.Go, fn Value, args []Value) {
	in.abort("unsupported: go statement (scheduler not active)")
}

func (in *Interp) noteAccess(p *Value, write bool) {}

func (in *Interp) mutexLock(m *Value, read bool)   {}
func (in *Interp) mutexUnlock(m *Value, read bool) {}
