package main

import (
	"go/types"

	"golang.org/x/tools/go/ssa"
)

// Scheduler placeholder (goroutines, channels, locks). Single-threaded semantics for now.

type goroutine struct{ id int }

type scheduler struct{}

func (s *scheduler) shutdown()            {}
func (s *scheduler) finishMain(in *Interp) {}

type Chan struct {
	buf    []Value
	cap    int
	closed bool
}

func (c *Chan) Len() int {
	if c == nil {
		return 0
	}
	return len(c.buf)
}
func (c *Chan) Cap() int {
	if c == nil {
		return 0
	}
	return c.cap
}

func (in *Interp) makeChan(n int) *Chan { return &Chan{cap: n} }

func (in *Interp) chanSend(c *Chan, v Value) {
	if c == nil {
		in.abort("deadlock: send on nil channel")
	}
	if c.closed {
		in.rtPanic("send on closed channel")
	}
	if len(c.buf) >= c.cap {
		in.abort("unsupported: blocking channel send (scheduler not active)")
	}
	c.buf = append(c.buf, copyVal(v))
}

func (in *Interp) chanRecv(c *Chan, commaOk bool, elem types.Type) Value {
	if c == nil {
		in.abort("deadlock: receive on nil channel")
	}
	var v Value
	ok := true
	if len(c.buf) > 0 {
		v = c.buf[0]
		c.buf = c.buf[1:]
	} else if c.closed {
		v = zero(elem)
		ok = false
	} else {
		in.abort("unsupported: blocking channel receive (scheduler not active)")
	}
	if commaOk {
		return Tuple{v, Bool(ok)}
	}
	return v
}

func (in *Interp) chanClose(c *Chan) {
	if c.closed {
		in.rtPanic("close of closed channel")
	}
	c.closed = true
}

// selectOp without an active scheduler: only cases that are ready now can fire.
func (in *Interp) selectOp(fr *frame, instr *ssa.Select) Value {
	var ready []int
	for i, st := range instr.States {
		ch, _ := fr.get(st.Chan).(*Chan)
		if ch == nil {
			continue
		}
		if st.Dir == types.RecvOnly {
			if len(ch.buf) > 0 || ch.closed {
				ready = append(ready, i)
			}
		} else {
			if ch.closed || len(ch.buf) < ch.cap {
				ready = append(ready, i)
			}
		}
	}
	chosen := -1
	if len(ready) > 0 {
		chosen = ready[in.choose(len(ready), "select")]
	} else if instr.Blocking {
		in.abort("unsupported: blocking select with no ready case (scheduler not active)")
	}
	r := Tuple{mkInt(int64(chosen)), tFalse}
	for i, st := range instr.States {
		if st.Dir != types.RecvOnly {
			if i == chosen {
				in.chanSend(fr.get(st.Chan).(*Chan), fr.get(st.Send))
			}
			continue
		}
		elem := underlying(st.Chan.Type()).(*types.Chan).Elem()
		if i == chosen {
			v := in.chanRecv(fr.get(st.Chan).(*Chan), true, elem).(Tuple)
			r[1] = v[1]
			r = append(r, v[0])
		} else {
			r = append(r, zero(elem))
		}
	}
	return r
}

func (in *Interp) goStmt(fr *frame, instr *ssa.Go, fn Value, args []Value) {
	in.abort("unsupported: go statement (scheduler not active)")
}

func (in *Interp) noteAccess(p *Value, write bool) {}

func (in *Interp) mutexLock(m *Value, read bool)   {}
func (in *Interp) mutexUnlock(m *Value, read bool) {}
