package main

// Terms: quantifier-free bit-vectors + booleans + one uninterpreted sort S (strings)
// + uninterpreted functions. Terms are immutable and may be shared between workers.

import (
	"fmt"
	"math/bits"
	"strings"
	"sync/atomic"
)

type Sort int // 0 = Bool, >0 = BitVec width, -1 = S (string sort)

const (
	SBool Sort = 0
	SStr  Sort = -1
)

func (s Sort) smt() string {
	switch {
	case s == SBool:
		return "Bool"
	case s == SStr:
		return "S"
	}
	return fmt.Sprintf("(_ BitVec %d)", int(s))
}

type Op uint8

const (
	OConst Op = iota
	OVar
	ONot
	OAnd
	OOr
	OIte
	OEq
	OAdd
	OSub
	OMul
	OUDiv
	OSDiv
	OURem
	OSRem
	OBAnd
	OBOr
	OBXor
	OBNot
	ONeg
	OShl
	OLshr
	OAshr
	OUlt
	OUle
	OSlt
	OSle
	OConcat
	OExtract
	OZext
	OSext
	OApp // uninterpreted function application: name(args)
)

var opName = [...]string{"const", "var", "not", "and", "or", "ite", "=", "bvadd", "bvsub", "bvmul", "bvudiv", "bvsdiv", "bvurem", "bvsrem",
	"bvand", "bvor", "bvxor", "bvnot", "bvneg", "bvshl", "bvlshr", "bvashr", "bvult", "bvule", "bvslt", "bvsle", "concat", "extract", "zero_extend", "sign_extend", "app"}

type Term struct {
	op     Op
	sort   Sort
	args   []*Term
	val    uint64 // OConst (bool: 0/1)
	hi, lo int    // OExtract; OZext/OSext: hi = extra bits
	name   string // OVar, OApp
	id     int64
	h      uint64 // structural hash
	vb     *varBits
}

// varBits is the set of nondet variable indices (n<k>_...) occurring in a term; indices >= 512 set over.
type varBits struct {
	w    [8]uint64
	over bool
}

func (a *varBits) or(b *varBits) {
	for i := range a.w {
		a.w[i] |= b.w[i]
	}
	a.over = a.over || b.over
}

func (a *varBits) has(k int) bool {
	if k < 0 || k >= 512 {
		return true
	}
	return a.w[k/64]&(1<<uint(k%64)) != 0
}

var emptyVarBits = &varBits{}

func varIndex(name string) int {
	if len(name) < 2 || name[0] != 'n' {
		return -1
	}
	k := 0
	i := 1
	for i < len(name) && name[i] >= '0' && name[i] <= '9' {
		k = k*10 + int(name[i]-'0')
		i++
	}
	if i == 1 {
		return -1
	}
	return k
}

// VarBits returns the set of variables of t (computed lazily; benign race, deterministic value).
func (t *Term) VarBits() *varBits {
	if t.vb != nil {
		return t.vb
	}
	var r *varBits
	switch {
	case t.op == OConst:
		r = emptyVarBits
	case t.op == OVar:
		r = &varBits{}
		k := varIndex(t.name)
		if k < 0 || k >= 512 {
			r.over = true
		} else {
			r.w[k/64] |= 1 << uint(k%64)
		}
	case len(t.args) == 0:
		r = emptyVarBits
	case len(t.args) == 1:
		r = t.args[0].VarBits()
	default:
		r = &varBits{}
		for _, a := range t.args {
			r.or(a.VarBits())
		}
	}
	t.vb = r
	return r
}

var termSeq int64

func newTerm(op Op, s Sort, args ...*Term) *Term {
	return &Term{op: op, sort: s, args: args, id: atomic.AddInt64(&termSeq, 1)}
}

func mix(h, x uint64) uint64 {
	h ^= x + 0x9e3779b97f4a7c15 + (h << 6) + (h >> 2)
	h *= 0xff51afd7ed558ccd
	h ^= h >> 33
	return h
}

// Hash returns the structural hash of t (computed lazily; benign race: the value is deterministic).
func (t *Term) Hash() uint64 {
	if t.h != 0 {
		return t.h
	}
	h := mix(uint64(t.op)+1, uint64(int64(t.sort))+77)
	h = mix(h, t.val)
	h = mix(h, uint64(t.hi)<<16^uint64(t.lo))
	for i := 0; i < len(t.name); i++ {
		h = mix(h, uint64(t.name[i]))
	}
	for _, a := range t.args {
		h = mix(h, a.Hash())
	}
	if h == 0 {
		h = 1
	}
	t.h = h
	return h
}

// deepSame is structural equality (hash-accelerated).
func deepSame(a, b *Term) bool {
	if a == b {
		return true
	}
	if a.Hash() != b.Hash() {
		return false
	}
	if a.op != b.op || a.sort != b.sort || len(a.args) != len(b.args) || a.hi != b.hi || a.lo != b.lo || a.name != b.name || a.val != b.val {
		return false
	}
	for i := range a.args {
		if !deepSame(a.args[i], b.args[i]) {
			return false
		}
	}
	return true
}

var (
	tTrue  = &Term{op: OConst, sort: SBool, val: 1, id: -1}
	tFalse = &Term{op: OConst, sort: SBool, val: 0, id: -2}
)

func mask(w Sort) uint64 {
	if w >= 64 {
		return ^uint64(0)
	}
	return (uint64(1) << uint(w)) - 1
}

var smallConsts [65][256]*Term

func init() {
	for w := 1; w <= 64; w++ {
		for v := 0; v < 256; v++ {
			if w < 8 && v >= 1<<uint(w) {
				break
			}
			smallConsts[w][v] = &Term{op: OConst, sort: Sort(w), val: uint64(v), id: -int64(1000 + w*256 + v)}
		}
	}
}

func BV(w Sort, v uint64) *Term {
	if w <= 0 || w > 64 {
		panic(fmt.Sprintf("BV: bad width %d", w))
	}
	v &= mask(w)
	if v < 256 {
		return smallConsts[w][v]
	}
	return &Term{op: OConst, sort: w, val: v, id: atomic.AddInt64(&termSeq, 1)}
}

func Bool(b bool) *Term {
	if b {
		return tTrue
	}
	return tFalse
}

func Var(name string, s Sort) *Term {
	t := newTerm(OVar, s)
	t.name = name
	return t
}

func (t *Term) IsConst() bool { return t.op == OConst }
func (t *Term) IsTrue() bool  { return t.op == OConst && t.sort == SBool && t.val == 1 }
func (t *Term) IsFalse() bool { return t.op == OConst && t.sort == SBool && t.val == 0 }

// signed value of a constant
func (t *Term) sval() int64 {
	w := uint(t.sort)
	if w >= 64 {
		return int64(t.val)
	}
	if t.val&(1<<(w-1)) != 0 {
		return int64(t.val | ^mask(t.sort))
	}
	return int64(t.val)
}

func sameTerm(a, b *Term) bool {
	return deepSame(a, b)
}

func sameTermOld(a, b *Term) bool {
	if a == b {
		return true
	}
	if a.op == OConst && b.op == OConst {
		return a.sort == b.sort && a.val == b.val
	}
	if a.op != b.op || a.sort != b.sort || len(a.args) != len(b.args) || a.hi != b.hi || a.lo != b.lo || a.name != b.name {
		return false
	}
	if a.op == OVar {
		return true // same name & sort
	}
	for i := range a.args {
		if !sameTermShallow(a.args[i], b.args[i], 3) {
			return false
		}
	}
	return true
}

func sameTermShallow(a, b *Term, depth int) bool {
	if a == b {
		return true
	}
	if a.op == OConst && b.op == OConst {
		return a.sort == b.sort && a.val == b.val
	}
	if depth == 0 {
		return false
	}
	if a.op != b.op || a.sort != b.sort || len(a.args) != len(b.args) || a.hi != b.hi || a.lo != b.lo || a.name != b.name {
		return false
	}
	if a.op == OVar {
		return true
	}
	for i := range a.args {
		if !sameTermShallow(a.args[i], b.args[i], depth-1) {
			return false
		}
	}
	return true
}

func Not(a *Term) *Term {
	if a.op == OConst {
		return Bool(a.val == 0)
	}
	if a.op == ONot {
		return a.args[0]
	}
	return newTerm(ONot, SBool, a)
}

func And(a, b *Term) *Term {
	if a.op == OConst {
		if a.val == 0 {
			return tFalse
		}
		return b
	}
	if b.op == OConst {
		if b.val == 0 {
			return tFalse
		}
		return a
	}
	if a == b || deepSame(a, b) {
		return a
	}
	if (a.op == ONot && deepSame(a.args[0], b)) || (b.op == ONot && deepSame(b.args[0], a)) {
		return tFalse
	}
	return newTerm(OAnd, SBool, a, b)
}

func Or(a, b *Term) *Term {
	if a.op == OConst {
		if a.val == 1 {
			return tTrue
		}
		return b
	}
	if b.op == OConst {
		if b.val == 1 {
			return tTrue
		}
		return a
	}
	if a == b || deepSame(a, b) {
		return a
	}
	if (a.op == ONot && deepSame(a.args[0], b)) || (b.op == ONot && deepSame(b.args[0], a)) {
		return tTrue
	}
	return newTerm(OOr, SBool, a, b)
}

func AndN(ts ...*Term) *Term {
	r := tTrue
	for _, t := range ts {
		r = And(r, t)
	}
	return r
}

func Ite(c, a, b *Term) *Term {
	if c.op == OConst {
		if c.val == 1 {
			return a
		}
		return b
	}
	if sameTerm(a, b) {
		return a
	}
	if a.sort != b.sort {
		panic(fmt.Sprintf("ite sorts differ: %v %v", a.sort, b.sort))
	}
	if a.sort == SBool {
		// ite(c, c, b) = ite(c, true, b); ite(c, a, c) = ite(c, a, false); same with negations
		if deepSame(a, c) {
			a = tTrue
		} else if a.op == ONot && deepSame(a.args[0], c) || c.op == ONot && deepSame(c.args[0], a) {
			a = tFalse
		}
		if deepSame(b, c) {
			b = tFalse
		} else if b.op == ONot && deepSame(b.args[0], c) || c.op == ONot && deepSame(c.args[0], b) {
			b = tTrue
		}
		if a.op == OConst && b.op == OConst && a.val == b.val {
			return a
		}
		if a.IsTrue() && b.IsFalse() {
			return c
		}
		if a.IsFalse() && b.IsTrue() {
			return Not(c)
		}
		if a.IsTrue() {
			return Or(c, b)
		}
		if a.IsFalse() {
			return And(Not(c), b)
		}
		if b.IsTrue() {
			return Or(Not(c), a)
		}
		if b.IsFalse() {
			return And(c, a)
		}
	}
	return newTerm(OIte, a.sort, c, a, b)
}

func Eq(a, b *Term) *Term {
	if a.sort != b.sort {
		panic(fmt.Sprintf("eq sorts differ: %v %v (%s) (%s)", a.sort, b.sort, a, b))
	}
	if sameTerm(a, b) {
		return tTrue
	}
	if a.op == OConst && b.op == OConst {
		return Bool(a.val == b.val)
	}
	if a.sort == SBool {
		if a.op == OConst {
			if a.val == 1 {
				return b
			}
			return Not(b)
		}
		if b.op == OConst {
			if b.val == 1 {
				return a
			}
			return Not(a)
		}
	}
	// zext(x) == const  where const doesn't fit -> false ; else compare narrow
	if a.op == OConst && b.op != OConst {
		a, b = b, a
	}
	if b.op == OConst && a.op == OZext {
		in := a.args[0]
		if b.val&^mask(in.sort) != 0 {
			return tFalse
		}
		return Eq(in, BV(in.sort, b.val))
	}
	if b.op == OConst && a.op == OIte && (a.args[1].op == OConst || a.args[2].op == OConst) && !(a.args[1].op == OConst && a.args[2].op == OConst) {
		return Ite(a.args[0], Eq(a.args[1], b), Eq(a.args[2], b))
	}
	// ite(c, k1, k2) == k  with constants
	if b.op == OConst && a.op == OIte && a.args[1].op == OConst && a.args[2].op == OConst {
		e1 := a.args[1].val == b.val
		e2 := a.args[2].val == b.val
		switch {
		case e1 && e2:
			return tTrue
		case e1:
			return a.args[0]
		case e2:
			return Not(a.args[0])
		default:
			return tFalse
		}
	}
	// distinct string literals
	if a.sort == SStr && a.op == OApp && b.op == OApp && len(a.args) == 0 && len(b.args) == 0 && strings.HasPrefix(a.name, "lit!") && strings.HasPrefix(b.name, "lit!") {
		return Bool(a.name == b.name)
	}
	return newTerm(OEq, SBool, a, b)
}

func binFold(op Op, w Sort, x, y uint64) (uint64, bool) {
	m := mask(w)
	sx := func(v uint64) int64 {
		if w < 64 && v&(1<<(uint(w)-1)) != 0 {
			return int64(v | ^m)
		}
		return int64(v)
	}
	switch op {
	case OAdd:
		return (x + y) & m, true
	case OSub:
		return (x - y) & m, true
	case OMul:
		return (x * y) & m, true
	case OUDiv:
		if y == 0 {
			return m, true
		}
		return x / y, true
	case OURem:
		if y == 0 {
			return x, true
		}
		return x % y, true
	case OSDiv:
		if y == 0 {
			if sx(x) < 0 {
				return 1, true
			}
			return m, true
		}
		if sx(y) == -1 {
			return uint64(-sx(x)) & m, true
		}
		return uint64(sx(x)/sx(y)) & m, true
	case OSRem:
		if y == 0 {
			return x, true
		}
		if sx(y) == -1 {
			return 0, true
		}
		return uint64(sx(x)%sx(y)) & m, true
	case OBAnd:
		return x & y, true
	case OBOr:
		return x | y, true
	case OBXor:
		return x ^ y, true
	case OShl:
		if y >= uint64(w) {
			return 0, true
		}
		return (x << y) & m, true
	case OLshr:
		if y >= uint64(w) {
			return 0, true
		}
		return x >> y, true
	case OAshr:
		if y >= uint64(w) {
			if sx(x) < 0 {
				return m, true
			}
			return 0, true
		}
		return uint64(sx(x)>>y) & m, true
	}
	return 0, false
}

func BvBin(op Op, a, b *Term) *Term {
	if a.sort != b.sort || a.sort <= 0 {
		panic(fmt.Sprintf("bvbin %s sorts: %v %v", opName[op], a.sort, b.sort))
	}
	w := a.sort
	if a.op == OConst && b.op == OConst {
		v, ok := binFold(op, w, a.val, b.val)
		if ok {
			return BV(w, v)
		}
	}
	m := mask(w)
	switch op {
	case OAdd:
		if a.op == OConst && a.val == 0 {
			return b
		}
		if b.op == OConst && b.val == 0 {
			return a
		}
		// (x + c1) + c2
		if b.op == OConst && a.op == OAdd && a.args[1].op == OConst {
			return BvBin(OAdd, a.args[0], BV(w, a.args[1].val+b.val))
		}
	case OSub:
		if b.op == OConst && b.val == 0 {
			return a
		}
		if a == b {
			return BV(w, 0)
		}
		if b.op == OConst {
			return BvBin(OAdd, a, BV(w, -b.val))
		}
	case OMul:
		if a.op == OConst {
			a, b = b, a
		}
		if b.op == OConst {
			if b.val == 0 {
				return BV(w, 0)
			}
			if b.val == 1 {
				return a
			}
			if bits.OnesCount64(b.val) == 1 {
				return BvBin(OShl, a, BV(w, uint64(bits.TrailingZeros64(b.val))))
			}
		}
	case OUDiv:
		if b.op == OConst && b.val == 1 {
			return a
		}
		if b.op == OConst && b.val != 0 && bits.OnesCount64(b.val) == 1 {
			return BvBin(OLshr, a, BV(w, uint64(bits.TrailingZeros64(b.val))))
		}
	case OBAnd:
		if a.op == OConst {
			a, b = b, a
		}
		if b.op == OConst {
			if b.val == 0 {
				return BV(w, 0)
			}
			if b.val == m {
				return a
			}
			// low mask: and with 2^k-1 == zext(extract)
			if b.val&(b.val+1) == 0 {
				k := bits.Len64(b.val)
				return Zext(Extract(a, k-1, 0), int(w)-k)
			}
		}
		if a == b {
			return a
		}
	case OBOr:
		if a.op == OConst {
			a, b = b, a
		}
		if b.op == OConst {
			if b.val == 0 {
				return a
			}
			if b.val == m {
				return b
			}
		}
		if a == b {
			return a
		}
	case OBXor:
		if a.op == OConst {
			a, b = b, a
		}
		if b.op == OConst && b.val == 0 {
			return a
		}
		if a == b {
			return BV(w, 0)
		}
	case OShl, OLshr, OAshr:
		if b.op == OConst {
			if b.val == 0 {
				return a
			}
			if b.val >= uint64(w) && op != OAshr {
				return BV(w, 0)
			}
			k := int(b.val)
			if op == OShl && k < int(w) {
				// concat(extract(w-1-k,0,a), 0_k)
				return Concat(Extract(a, int(w)-1-k, 0), BV(Sort(k), 0))
			}
			if op == OLshr && k < int(w) {
				return Zext(Extract(a, int(w)-1, k), k)
			}
		}
		if a.op == OConst && a.val == 0 {
			return a
		}
	}
	return newTerm(op, w, a, b)
}

func BvNot(a *Term) *Term {
	if a.op == OConst {
		return BV(a.sort, ^a.val)
	}
	if a.op == OBNot {
		return a.args[0]
	}
	return newTerm(OBNot, a.sort, a)
}

func BvNeg(a *Term) *Term {
	if a.op == OConst {
		return BV(a.sort, -a.val)
	}
	return newTerm(ONeg, a.sort, a)
}

// constLeafIte reports whether t is a constant or an ite tree (depth <= 6) whose leaves are constants
// for at least one branch at every level (so lifting a comparison into it folds away).
func constLeafIte(t *Term, depth int) bool {
	if t.op == OConst {
		return true
	}
	if t.op != OIte || depth == 0 {
		return false
	}
	l, r := t.args[1], t.args[2]
	if l.op == OConst {
		return r.op == OConst || r.op == OIte && constLeafIte(r, depth-1) || true
	}
	if r.op == OConst {
		return true
	}
	return false
}

func Cmp(op Op, a, b *Term) *Term {
	if a.sort != b.sort || a.sort <= 0 {
		panic(fmt.Sprintf("cmp %s sorts: %v %v", opName[op], a.sort, b.sort))
	}
	if a.op == OIte && b.op == OConst && (a.args[1].op == OConst || a.args[2].op == OConst) {
		return Ite(a.args[0], Cmp(op, a.args[1], b), Cmp(op, a.args[2], b))
	}
	if b.op == OIte && a.op == OConst && (b.args[1].op == OConst || b.args[2].op == OConst) {
		return Ite(b.args[0], Cmp(op, a, b.args[1]), Cmp(op, a, b.args[2]))
	}
	if a.op == OConst && b.op == OConst {
		switch op {
		case OUlt:
			return Bool(a.val < b.val)
		case OUle:
			return Bool(a.val <= b.val)
		case OSlt:
			return Bool(a.sval() < b.sval())
		case OSle:
			return Bool(a.sval() <= b.sval())
		}
	}
	if a == b {
		return Bool(op == OUle || op == OSle)
	}
	// zero-extended operands compared with constants: narrow
	if op == OUlt || op == OUle {
		if a.op == OZext && b.op == OConst {
			in := a.args[0]
			if b.val > mask(in.sort) {
				return tTrue
			}
			return Cmp(op, in, BV(in.sort, b.val))
		}
		if b.op == OZext && a.op == OConst {
			in := b.args[0]
			if a.val > mask(in.sort) {
				return tFalse
			}
			return Cmp(op, BV(in.sort, a.val), in)
		}
		if a.op == OZext && b.op == OZext && a.args[0].sort == b.args[0].sort {
			return Cmp(op, a.args[0], b.args[0])
		}
		if op == OUlt && b.op == OConst && b.val == 0 {
			return tFalse
		}
		if op == OUle && a.op == OConst && a.val == 0 {
			return tTrue
		}
	}
	if op == OSlt || op == OSle {
		// signed compare where both are zero-extended (non-negative): same as unsigned
		if a.op == OZext && a.hi > 0 && b.op == OConst && b.sval() >= 0 {
			uop := OUlt
			if op == OSle {
				uop = OUle
			}
			return Cmp(uop, a, b)
		}
		if b.op == OZext && b.hi > 0 && a.op == OConst && a.sval() >= 0 {
			uop := OUlt
			if op == OSle {
				uop = OUle
			}
			return Cmp(uop, a, b)
		}
		if a.op == OZext && a.hi > 0 && b.op == OZext && b.hi > 0 {
			uop := OUlt
			if op == OSle {
				uop = OUle
			}
			return Cmp(uop, a, b)
		}
	}
	return newTerm(op, SBool, a, b)
}

func Concat(a, b *Term) *Term { // a is high part
	w := a.sort + b.sort
	if a.op == OConst && b.op == OConst && w <= 64 {
		return BV(w, a.val<<uint(b.sort)|b.val)
	}
	// adjacent extracts of the same term
	if a.op == OExtract && b.op == OExtract && a.args[0] == b.args[0] && a.lo == b.hi+1 {
		return Extract(a.args[0], a.hi, b.lo)
	}
	// 0 ++ x = zext
	if a.op == OConst && a.val == 0 {
		return Zext(b, int(a.sort))
	}
	// concat(a, concat(b1, b2)) with a,b1 adjacent extracts
	if a.op == OExtract && b.op == OConcat && b.args[0].op == OExtract && a.args[0] == b.args[0].args[0] && a.lo == b.args[0].hi+1 {
		return Concat(Extract(a.args[0], a.hi, b.args[0].lo), b.args[1])
	}
	// concat(concat(x, e1), e2) with e1,e2 adjacent
	if a.op == OConcat && a.args[1].op == OExtract && b.op == OExtract && a.args[1].args[0] == b.args[0] && a.args[1].lo == b.hi+1 {
		return Concat(a.args[0], Extract(b.args[0], a.args[1].hi, b.lo))
	}
	if a.op == OConcat && a.args[1].op == OConst && b.op == OConst && a.args[1].sort+b.sort <= 64 {
		return Concat(a.args[0], Concat(a.args[1], b))
	}
	return newTerm(OConcat, w, a, b)
}

func Extract(a *Term, hi, lo int) *Term {
	if hi < lo || lo < 0 || hi >= int(a.sort) {
		panic(fmt.Sprintf("extract [%d:%d] of width %d", hi, lo, a.sort))
	}
	w := Sort(hi - lo + 1)
	if w == a.sort {
		return a
	}
	switch a.op {
	case OConst:
		return BV(w, a.val>>uint(lo))
	case OExtract:
		return Extract(a.args[0], a.lo+hi, a.lo+lo)
	case OConcat:
		lw := int(a.args[1].sort)
		if hi < lw {
			return Extract(a.args[1], hi, lo)
		}
		if lo >= lw {
			return Extract(a.args[0], hi-lw, lo-lw)
		}
		return Concat(Extract(a.args[0], hi-lw, 0), Extract(a.args[1], lw-1, lo))
	case OZext:
		iw := int(a.args[0].sort)
		if hi < iw {
			return Extract(a.args[0], hi, lo)
		}
		if lo >= iw {
			return BV(w, 0)
		}
		return Zext(Extract(a.args[0], iw-1, lo), hi-iw+1)
	case OSext:
		iw := int(a.args[0].sort)
		if hi < iw {
			return Extract(a.args[0], hi, lo)
		}
	case OBAnd, OBOr, OBXor:
		if a.args[1].op == OConst || a.args[0].op == OConst || w <= 8 {
			return BvBin(a.op, Extract(a.args[0], hi, lo), Extract(a.args[1], hi, lo))
		}
	case OIte:
		if a.args[1].op == OConst || a.args[2].op == OConst {
			return Ite(a.args[0], Extract(a.args[1], hi, lo), Extract(a.args[2], hi, lo))
		}
	case OAdd, OSub, OMul:
		if lo == 0 { // low bits of add/sub/mul depend only on low bits
			return BvBin(a.op, Extract(a.args[0], hi, 0), Extract(a.args[1], hi, 0))
		}
	}
	t := newTerm(OExtract, w, a)
	t.hi, t.lo = hi, lo
	return t
}

func Zext(a *Term, n int) *Term {
	if n == 0 {
		return a
	}
	w := a.sort + Sort(n)
	if a.op == OConst && w <= 64 {
		return BV(w, a.val)
	}
	if a.op == OZext {
		return Zext(a.args[0], a.hi+n)
	}
	t := newTerm(OZext, w, a)
	t.hi = n
	return t
}

func Sext(a *Term, n int) *Term {
	if n == 0 {
		return a
	}
	w := a.sort + Sort(n)
	if a.op == OConst && w <= 64 {
		return BV(w, uint64(a.sval()))
	}
	if a.op == OZext && a.hi > 0 {
		return Zext(a.args[0], a.hi+n)
	}
	t := newTerm(OSext, w, a)
	t.hi = n
	return t
}

// Resize converts a bit-vector to width w; signed selects sign extension.
func Resize(a *Term, w Sort, signed bool) *Term {
	switch {
	case a.sort == w:
		return a
	case a.sort > w:
		return Extract(a, int(w)-1, 0)
	case signed:
		return Sext(a, int(w-a.sort))
	default:
		return Zext(a, int(w-a.sort))
	}
}

func App(name string, s Sort, args ...*Term) *Term {
	t := newTerm(OApp, s, args...)
	t.name = name
	return t
}

func (t *Term) String() string {
	var sb strings.Builder
	t.write(&sb, 0)
	return sb.String()
}

func (t *Term) write(sb *strings.Builder, depth int) {
	if depth > 12 {
		sb.WriteString("…")
		return
	}
	switch t.op {
	case OConst:
		if t.sort == SBool {
			if t.val == 1 {
				sb.WriteString("true")
			} else {
				sb.WriteString("false")
			}
		} else {
			fmt.Fprintf(sb, "%d:%d", t.val, int(t.sort))
		}
	case OVar:
		sb.WriteString(t.name)
	default:
		sb.WriteByte('(')
		if t.op == OApp {
			sb.WriteString(t.name)
		} else {
			sb.WriteString(opName[t.op])
		}
		if t.op == OExtract {
			fmt.Fprintf(sb, "[%d:%d]", t.hi, t.lo)
		}
		for _, a := range t.args {
			sb.WriteByte(' ')
			a.write(sb, depth+1)
		}
		sb.WriteByte(')')
	}
}
