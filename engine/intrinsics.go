package main

import (
	"math"
	"net"
	"fmt"
	"go/types"
	"strings"

	"golang.org/x/tools/go/ssa"
)

const vrtPath = "go.universe.tf/metallb/internal/verifrt."

var intrinsics = map[string]intrinsicFn{}

// packages whose functions are black holes (no effect, opaque/zero results)
var blackholePkgs = []string{
	"github.com/go-kit/log",
	"github.com/prometheus/",
	"k8s.io/klog",
	"log",
	"github.com/go-logr/",
	"sigs.k8s.io/controller-runtime/pkg/log",
}

func funcPkgPath(fn *ssa.Function) string {
	f := fn
	for f.Parent() != nil {
		f = f.Parent()
	}
	if f.Pkg != nil {
		return f.Pkg.Pkg.Path()
	}
	if o := f.Origin(); o != nil && o.Pkg != nil {
		return o.Pkg.Pkg.Path()
	}
	if f.Object() != nil && f.Object().Pkg() != nil {
		return f.Object().Pkg().Path()
	}
	// wrappers / bound methods: look at the receiver
	if sig := f.Signature; sig != nil && sig.Recv() != nil {
		t := sig.Recv().Type()
		if p, ok := t.(*types.Pointer); ok {
			t = p.Elem()
		}
		if n, ok := types.Unalias(t).(*types.Named); ok && n.Obj().Pkg() != nil {
			return n.Obj().Pkg().Path()
		}
	}
	return ""
}

func lookupIntrinsic(fn *ssa.Function, name string) intrinsicFn {
	if f, ok := intrinsics[name]; ok {
		return f
	}
	// strip instantiation suffix for generics: pkg.F[T]
	if i := strings.Index(name, "["); i >= 0 {
		if f, ok := intrinsics[name[:i]]; ok {
			return f
		}
	}
	pp := funcPkgPath(fn)
	for _, b := range blackholePkgs {
		if pp == b || strings.HasPrefix(pp, b) && (strings.HasSuffix(b, "/") || strings.HasPrefix(pp[len(b):], "/")) {
			return blackhole
		}
	}
	return nil
}

// blackhole ignores its arguments and returns opaque/zero results.
func blackhole(in *Interp, fr *frame, args []Value) Value {
	return opaqueResults(fr.fn.Signature.Results())
}

func opaqueResults(res *types.Tuple) Value {
	switch res.Len() {
	case 0:
		return nil
	case 1:
		return opaqueOf(res.At(0).Type())
	}
	t := make(Tuple, res.Len())
	for i := range t {
		t[i] = opaqueOf(res.At(i).Type())
	}
	return t
}

var opaqueType = types.NewNamed(types.NewTypeName(0, nil, "gosx.opaque", nil), types.NewStruct(nil, nil), nil)

func opaqueOf(t types.Type) Value {
	switch u := underlying(t).(type) {
	case *types.Interface:
		if types.Identical(t, types.Universe.Lookup("error").Type()) {
			return Iface{} // black holes never fail
		}
		return Iface{t: opaqueType, v: Opaque{"blackhole"}}
	case *types.Signature:
		return &Native{name: "blackhole", fn: func(in *Interp, args []Value) Value { return opaqueResults(u.Results()) }}
	case *types.Pointer:
		// a non-nil object so that promoted-method wrappers can dereference it
		if _, ok := underlying(u.Elem()).(*types.Struct); ok {
			v := zero(u.Elem())
			return &v
		}
	}
	return zero(t)
}

func reg(name string, f intrinsicFn) { intrinsics[name] = f }

func init() {
	// ---- verifrt: the harness language
	reg(vrtPath+"Bool", func(in *Interp, fr *frame, a []Value) Value { return in.nondet("Bool", SBool) })
	reg(vrtPath+"Byte", func(in *Interp, fr *frame, a []Value) Value { return in.nondet("Byte", 8) })
	reg(vrtPath+"Uint16", func(in *Interp, fr *frame, a []Value) Value { return in.nondet("Uint16", 16) })
	reg(vrtPath+"Uint32", func(in *Interp, fr *frame, a []Value) Value { return in.nondet("Uint32", 32) })
	reg(vrtPath+"Uint64", func(in *Interp, fr *frame, a []Value) Value { return in.nondet("Uint64", 64) })
	reg(vrtPath+"Int", func(in *Interp, fr *frame, a []Value) Value {
		lo, hi := asTerm(a[0]), asTerm(a[1])
		v := in.nondet("Int", 64)
		if _, have := in.path.model.vals[v.name]; !have && lo.op == OConst {
			in.path.model.vals[v.name] = lo.val
		}
		in.assume(And(Cmp(OSle, lo, v), Cmp(OSle, v, hi)))
		return v
	})
	reg(vrtPath+"Choose", func(in *Interp, fr *frame, a []Value) Value {
		n, ok := concInt(a[0])
		if !ok {
			in.abort("verifrt.Choose: symbolic n")
		}
		v := in.nondet("Choose", 64)
		in.assume(Cmp(OUlt, v, BV(64, uint64(n))))
		return mkInt(int64(in.concretize(v)))
	})
	reg(vrtPath+"PickString", func(in *Interp, fr *frame, a []Value) Value {
		opts := a[0].(Slice)
		if len(opts) == 0 {
			in.abort("PickString: no options")
		}
		if len(opts) == 1 {
			return opts[0]
		}
		idx := in.nondet("Pick", 8)
		in.assume(Cmp(OUlt, idx, BV(8, uint64(len(opts)))))
		t := in.strTerm(opts[len(opts)-1])
		for i := len(opts) - 2; i >= 0; i-- {
			t = Ite(Eq(idx, BV(8, uint64(i))), in.strTerm(opts[i]), t)
		}
		return &SymStr{t: t}
	})
	reg(vrtPath+"SameState", func(in *Interp, fr *frame, a []Value) Value {
		x, y := a[0].(Iface), a[1].(Iface)
		if x.t == nil || y.t == nil {
			return Bool(x.t == nil && y.t == nil)
		}
		if !types.Identical(x.t, y.t) {
			return tFalse
		}
		return in.sameState(x.t, x.v, y.v, 0)
	})
	reg("reflect.DeepEqual", func(in *Interp, fr *frame, a []Value) Value {
		x, y := a[0].(Iface), a[1].(Iface)
		if x.t == nil || y.t == nil {
			return Bool(x.t == nil && y.t == nil)
		}
		if !types.Identical(x.t, y.t) {
			return tFalse
		}
		return in.deepEqual(x.t, x.v, y.v, 0)
	})
	reg("net.ParseIP", func(in *Interp, fr *frame, a []Value) Value {
		switch s := a[0].(type) {
		case string:
			ip := net.ParseIP(s)
			if ip == nil {
				return Slice(nil)
			}
			return bytesToSlice(ip)
		case *SymStr:
			if !s.opaque && s.t.op == OApp && s.t.name == "IPStr" {
				out := make(Slice, 16)
				for i := range out {
					out[i] = s.t.args[i]
				}
				return out
			}
		}
		in.abort("unsupported: net.ParseIP on a symbolic string that is not an address text")
		return nil
	})
	reg("(*net.Interface).Addrs", func(in *Interp, fr *frame, a []Value) Value {
		// environment stub: the interface has one IPv4 and one IPv6 loopback-style address
		ipnetT := types.NewPointer(in.pkgType("net", "IPNet"))
		mk := func(ip net.IP, mask net.IPMask) Value {
			st := Value(Struct{bytesToSlice(ip), bytesToSlice(mask)})
			return Iface{t: ipnetT, v: &st}
		}
		return Tuple{Slice{mk(net.IPv4(127, 0, 0, 1).To4(), net.CIDRMask(8, 32))}, Iface{}}
	})
	reg("net.ParseCIDR", func(in *Interp, fr *frame, a []Value) Value {
		str, ok := a[0].(string)
		if !ok {
			if ss, ok := a[0].(*SymStr); ok {
				if v := in.parseSymCIDR(ss); v != nil {
					return v
				}
			}
			in.abort("unsupported: net.ParseCIDR on a symbolic string")
		}
		ip, n, err := net.ParseCIDR(str)
		if err != nil {
			return Tuple{Slice(nil), (*Value)(nil), in.newError("net.ParseCIDR", nil)}
		}
		st := Value(Struct{bytesToSlice(n.IP), bytesToSlice(n.Mask)})
		return Tuple{bytesToSlice(ip), &st, Iface{}}
	})
	reg(vrtPath+"Assume", func(in *Interp, fr *frame, a []Value) Value { in.assume(asTerm(a[0])); return nil })
	reg(vrtPath+"Assert", func(in *Interp, fr *frame, a []Value) Value {
		msg, _ := a[1].(string)
		in.assert(asTerm(a[0]), msg)
		return nil
	})
	reg(vrtPath+"Reach", func(in *Interp, fr *frame, a []Value) Value {
		if s, ok := a[0].(string); ok {
			in.path.reach[s] = true
		}
		return nil
	})
	reg(vrtPath+"Unsupported", func(in *Interp, fr *frame, a []Value) Value {
		what, _ := a[0].(string)
		in.abort("unsupported: harness oracle: %s", what)
		return nil
	})
	reg(vrtPath+"Observe", func(in *Interp, fr *frame, a []Value) Value {
		label, _ := a[0].(string)
		in.path.observes = append(in.path.observes, observed{label, a[1]})
		return nil
	})
	reg(vrtPath+"Note", func(in *Interp, fr *frame, a []Value) Value {
		if s, ok := a[0].(string); ok {
			in.path.notes = append(in.path.notes, s)
		}
		return nil
	})
	reg(vrtPath+"Finding", func(in *Interp, fr *frame, a []Value) Value {
		if s, ok := a[0].(string); ok {
			in.path.finding = s
		}
		return nil
	})
	reg(vrtPath+"And", func(in *Interp, fr *frame, a []Value) Value { return And(asTerm(a[0]), asTerm(a[1])) })
	reg(vrtPath+"Or", func(in *Interp, fr *frame, a []Value) Value { return Or(asTerm(a[0]), asTerm(a[1])) })
	reg(vrtPath+"Not", func(in *Interp, fr *frame, a []Value) Value { return Not(asTerm(a[0])) })
	reg(vrtPath+"Implies", func(in *Interp, fr *frame, a []Value) Value { return Or(Not(asTerm(a[0])), asTerm(a[1])) })
	reg(vrtPath+"Iff", func(in *Interp, fr *frame, a []Value) Value { return Eq(asTerm(a[0]), asTerm(a[1])) })
	ite := func(in *Interp, fr *frame, a []Value) Value {
		return Ite(asTerm(a[0]), asTerm(a[1]), asTerm(a[2]))
	}
	for _, n := range []string{"IteInt", "IteU8", "IteU16", "IteU32", "IteU64", "IteBool"} {
		reg(vrtPath+n, ite)
	}
	reg(vrtPath+"MapOrder", func(in *Interp, fr *frame, a []Value) Value {
		n, _ := concInt(a[0])
		in.path.mapOrder = int(n)
		return nil
	})
	reg(vrtPath+"Symbolic", func(in *Interp, fr *frame, a []Value) Value { return tTrue })
	reg(vrtPath+"RaceRetry", func(in *Interp, fr *frame, a []Value) Value { return tFalse })
	reg(vrtPath+"IsConcrete", func(in *Interp, fr *frame, a []Value) Value {
		t, ok := a[0].(Iface)
		if ok {
			if tt, ok := t.v.(*Term); ok {
				return Bool(tt.op == OConst)
			}
		}
		return tTrue
	})
	reg(vrtPath+"Stop", func(in *Interp, fr *frame, a []Value) Value { panic(endPath{}) })

	// ---- fmt / errors
	reg("fmt.Errorf", intrErrorf)
	reg("fmt.Sprintf", intrSprintf)
	reg("fmt.Sprint", func(in *Interp, fr *frame, a []Value) Value { return in.sprintLike(fr, a[0].(Slice), false) })
	reg("fmt.Sprintln", func(in *Interp, fr *frame, a []Value) Value { return in.sprintLike(fr, a[0].(Slice), true) })
	for _, n := range []string{"fmt.Printf", "fmt.Println", "fmt.Print", "fmt.Fprintf", "fmt.Fprintln", "fmt.Fprint"} {
		reg(n, func(in *Interp, fr *frame, a []Value) Value { return Tuple{mkInt(0), Iface{}} })
	}
	reg("errors.Is", intrErrorsIs)
	reg("errors.As", intrErrorsAs)
	reg("errors.Join", func(in *Interp, fr *frame, a []Value) Value {
		errs := a[0].(Slice)
		var first Value
		n := 0
		for _, e := range errs {
			if e.(Iface).t != nil {
				if first == nil {
					first = e
				}
				n++
			}
		}
		if n == 0 {
			return Iface{}
		}
		return in.newError("errors.Join", first)
	})

	// ---- encoding/binary
	reg("encoding/binary.Write", intrBinaryWrite)
	reg("encoding/binary.Read", intrBinaryRead)
	reg("encoding/binary.Size", func(in *Interp, fr *frame, a []Value) Value {
		itf := a[0].(Iface)
		n, ok := binSize(itf.t, itf.v)
		if !ok {
			return mkInt(-1)
		}
		return mkInt(int64(n))
	})

	// ---- time
	reg("(time.Duration).Seconds", func(in *Interp, fr *frame, a []Value) Value {
		d := asTerm(a[0])
		if d.op == OConst {
			return float64(d.sval()) / 1e9
		}
		if d.op == OMul && d.args[1].op == OConst && d.args[1].val == 1000000000 {
			x := d.args[0]
			if x.op == OZext && x.args[0].sort <= 32 {
				return &SymFloat{t: x}
			}
		}
		in.abort("unsupported: Duration.Seconds on a symbolic duration that is not (small int)*time.Second")
		return nil
	})
	reg("time.Now", func(in *Interp, fr *frame, a []Value) Value { return zero(fr.fn.Signature.Results().At(0).Type()) })
	reg("time.Since", func(in *Interp, fr *frame, a []Value) Value { return mkInt(0) })

	// ---- math
	reg("math.Pow", func(in *Interp, fr *frame, a []Value) Value {
		x, xok := a[0].(float64)
		switch y := a[1].(type) {
		case float64:
			if xok {
				return mathPow(x, y)
			}
		case *SymFloat:
			if xok && x == 2 && y.pow2of == nil {
				return &SymFloat{pow2of: y.t}
			}
		}
		in.abort("unsupported: math.Pow on symbolic operands other than Pow(2, float64(int))")
		return nil
	})

	// ---- sync (single-threaded paths unless the scheduler is active)
	reg("(*sync.Mutex).Lock", func(in *Interp, fr *frame, a []Value) Value { in.mutexLock(a[0].(*Value), false); return nil })
	reg("(*sync.Mutex).Unlock", func(in *Interp, fr *frame, a []Value) Value { in.mutexUnlock(a[0].(*Value), false); return nil })
	reg("(*sync.Mutex).TryLock", func(in *Interp, fr *frame, a []Value) Value { in.abort("unsupported: TryLock"); return nil })
	reg("(*sync.RWMutex).Lock", func(in *Interp, fr *frame, a []Value) Value { in.mutexLock(a[0].(*Value), false); return nil })
	reg("(*sync.RWMutex).Unlock", func(in *Interp, fr *frame, a []Value) Value { in.mutexUnlock(a[0].(*Value), false); return nil })
	reg("(*sync.RWMutex).RLock", func(in *Interp, fr *frame, a []Value) Value { in.mutexLock(a[0].(*Value), true); return nil })
	reg("(*sync.RWMutex).RUnlock", func(in *Interp, fr *frame, a []Value) Value { in.mutexUnlock(a[0].(*Value), true); return nil })
	reg("(*sync.Once).Do", func(in *Interp, fr *frame, a []Value) Value {
		p := a[0].(*Value)
		st := (*p).(Struct)
		// field 0: done (atomic.Uint32 struct{_ noCopy; v uint32})
		doneField := &st[0]
		if isDoneSet(*doneField) {
			return nil
		}
		setDone(doneField)
		in.call(fr, 0, a[1], nil)
		return nil
	})

	// sync.Pool. Pools declared by the program under test (package-level variables of the metallb module)
	// are modelled: Put keeps the item, Get hands back the most recently kept item or a fresh one (one
	// nondeterministic bit per path - both are behaviours of the real pool). Library pools always hand out
	// a fresh item (assumption: the library resets what it pools).
	ownPool := func(in *Interp, p *Value) bool {
		for g, cell := range in.globals {
			if cell == p && g.Pkg != nil && strings.HasPrefix(g.Pkg.Pkg.Path(), "go.universe.tf/metallb") {
				return true
			}
		}
		return false
	}
	reg("(*sync.Pool).Get", func(in *Interp, fr *frame, a []Value) Value {
		p := a[0].(*Value)
		if kept := in.pools[p]; len(kept) > 0 && ownPool(in, p) && in.pathBit("syncpool-reuse") {
			x := kept[len(kept)-1]
			in.pools[p] = kept[:len(kept)-1]
			return x
		}
		st := (*p).(Struct)
		newFn := st[len(st)-1]
		if isNilFunc(newFn) {
			return Iface{}
		}
		return in.call(fr, 0, newFn, nil)
	})
	reg("(*sync.Pool).Put", func(in *Interp, fr *frame, a []Value) Value {
		p := a[0].(*Value)
		if ownPool(in, p) {
			if in.pools == nil {
				in.pools = map[*Value][]Value{}
			}
			in.pools[p] = append(in.pools[p], a[1])
		}
		return nil
	})

	// io.Discard.ReadFrom: same Reader-contract behaviour as the library code, with a 1-byte scratch
	// buffer instead of the pooled 8192-byte one (keeps symbolic read limits from fanning out).
	reg("(io.discard).ReadFrom", func(in *Interp, fr *frame, a []Value) Value {
		src := a[1].(Iface)
		total := BV(64, 0)
		for iter := 0; ; iter++ {
			if iter > 4096 {
				in.abort("unwinding: io.Discard.ReadFrom loop")
			}
			buf := make(Slice, 1)
			for i := range buf {
				buf[i] = BV(8, 0)
			}
			r := in.invoke(fr, src, "Read", buf).(Tuple)
			total = BvBin(OAdd, total, asTerm(r[0]))
			if e := r[1].(Iface); e.t != nil {
				eof := *in.globalAddr(in.prog.ImportedPackage("io").Var("EOF"))
				if in.decide(in.eqVal(e, eof)) {
					return Tuple{total, Iface{}}
				}
				return Tuple{total, e}
			}
		}
	})

	// ---- sort.Slice and friends: the real sort algorithms run; only the reflection-based swapper is native
	sortSlice := func(stable bool) intrinsicFn {
		return func(in *Interp, fr *frame, a []Value) Value {
			x := a[0].(Iface)
			sl, ok := x.v.(Slice)
			if !ok {
				in.abort("sort.Slice: not a slice")
			}
			swap := &Native{name: "swapper", fn: func(in *Interp, args []Value) Value {
				i := in.index(args[0], len(sl))
				j := in.index(args[1], len(sl))
				sl[i], sl[j] = sl[j], sl[i]
				return nil
			}}
			ls := Struct{a[1], swap}
			n := len(sl)
			if stable {
				in.call(fr, 0, in.pkgFunc("sort", "stable_func"), []Value{ls, mkInt(int64(n))})
			} else {
				limit := 0
				for v := uint(n); v != 0; v >>= 1 {
					limit++
				}
				in.call(fr, 0, in.pkgFunc("sort", "pdqsort_func"), []Value{ls, mkInt(0), mkInt(int64(n)), mkInt(int64(limit))})
			}
			return nil
		}
	}
	reg("sort.Slice", sortSlice(false))
	reg("sort.SliceStable", sortSlice(true))
	reg("internal/reflectlite.Swapper", func(in *Interp, fr *frame, a []Value) Value {
		x := a[0].(Iface)
		sl, _ := x.v.(Slice)
		return &Native{name: "swapper", fn: func(in *Interp, args []Value) Value {
			i := in.index(args[0], len(sl))
			j := in.index(args[1], len(sl))
			sl[i], sl[j] = sl[j], sl[i]
			return nil
		}}
	})

	// ---- byte-slice primitives (compiler/assembly intrinsics in the real runtime)
	bytesEq := func(in *Interp, fr *frame, a []Value) Value {
		x, y := a[0].(Slice), a[1].(Slice)
		if len(x) != len(y) {
			return tFalse
		}
		r := tTrue
		for i := range x {
			r = And(r, Eq(x[i].(*Term), y[i].(*Term)))
		}
		return r
	}
	reg("internal/bytealg.Equal", bytesEq)
	reg("bytes.Equal", bytesEq)
	bytesCmp := func(in *Interp, fr *frame, a []Value) Value {
		x, y := a[0].(Slice), a[1].(Slice)
		if wx, ok := wholeTerm(x); ok {
			if wy, ok := wholeTerm(y); ok && wx.sort == wy.sort {
				return Ite(Cmp(OUlt, wx, wy), BV(64, ^uint64(0)), Ite(Eq(wx, wy), BV(64, 0), BV(64, 1)))
			}
		}
		if len(x) == 32 && len(y) == 32 {
			// digest = H64 ++ G192
			hx, ok1 := wholeTerm(x[:8:8])
			hy, ok2 := wholeTerm(y[:8:8])
			gx, ok3 := wholeTerm(x[8:])
			gy, ok4 := wholeTerm(y[8:])
			if ok1 && ok2 && ok3 && ok4 {
				eq := Eq(hx, hy)
				if v, ok := in.path.implied(eq); ok {
					eq = Bool(v)
				}
				if eq.IsFalse() {
					return Ite(Cmp(OUlt, hx, hy), BV(64, ^uint64(0)), BV(64, 1))
				}
				tail := Ite(Cmp(OUlt, gx, gy), BV(64, ^uint64(0)), Ite(Eq(gx, gy), BV(64, 0), BV(64, 1)))
				return Ite(Cmp(OUlt, hx, hy), BV(64, ^uint64(0)), Ite(eq, tail, BV(64, 1)))
			}
		}
		n := len(x)
		if len(y) < n {
			n = len(y)
		}
		var tail *Term
		switch {
		case len(x) < len(y):
			tail = BV(64, ^uint64(0))
		case len(x) > len(y):
			tail = BV(64, 1)
		default:
			tail = BV(64, 0)
		}
		r := tail
		for i := n - 1; i >= 0; i-- {
			xi, yi := x[i].(*Term), y[i].(*Term)
			r = Ite(Cmp(OUlt, xi, yi), BV(64, ^uint64(0)), Ite(Cmp(OUlt, yi, xi), BV(64, 1), r))
		}
		return r
	}
	reg("internal/bytealg.Compare", bytesCmp)
	reg("bytes.Compare", bytesCmp)
	indexByte := func(in *Interp, fr *frame, a []Value) Value {
		c := asTerm(a[1])
		var elems []*Term
		switch x := a[0].(type) {
		case Slice:
			for _, e := range x {
				elems = append(elems, e.(*Term))
			}
		case string:
			for i := 0; i < len(x); i++ {
				elems = append(elems, mkByte(x[i]))
			}
		default:
			in.abort("unsupported: IndexByte on %T", a[0])
		}
		r := BV(64, ^uint64(0))
		for i := len(elems) - 1; i >= 0; i-- {
			r = Ite(Eq(elems[i], c), BV(64, uint64(i)), r)
		}
		return r
	}
	reg("internal/bytealg.IndexByte", indexByte)
	reg("internal/bytealg.IndexByteString", indexByte)
	reg("bytes.IndexByte", indexByte)

	// ---- strings package on symbolic text (concrete arguments run the real code)
	reg("strings.Contains", func(in *Interp, fr *frame, a []Value) Value {
		if ss, ok := a[0].(*SymStr); ok {
			sub, ok2 := a[1].(string)
			if !ok2 {
				in.abort("unsupported: strings.Contains with symbolic needle")
			}
			return in.symContains(ss, sub)
		}
		if s0, ok := a[0].(string); ok {
			if s1, ok := a[1].(string); ok {
				return Bool(strings.Contains(s0, s1))
			}
		}
		in.abort("unsupported: strings.Contains operands")
		return nil
	})
	reg("strings.SplitN", func(in *Interp, fr *frame, a []Value) Value {
		n, _ := concInt(a[2])
		if ss, ok := a[0].(*SymStr); ok {
			sep, ok2 := a[1].(string)
			if !ok2 {
				in.abort("unsupported: strings.SplitN with symbolic separator")
			}
			return in.symSplitN(ss, sep, int(n))
		}
		s0, ok0 := a[0].(string)
		s1, ok1 := a[1].(string)
		if !ok0 || !ok1 {
			in.abort("unsupported: strings.SplitN operands")
		}
		parts := strings.SplitN(s0, s1, int(n))
		out := make(Slice, len(parts))
		for i, p := range parts {
			out[i] = p
		}
		return out
	})
	// strings.Builder: the content is kept as a string value (concrete or symbolic) in the buf field
	builderGet := func(in *Interp, recv Value) (*Value, Value) {
		p, _ := recv.(*Value)
		if p == nil {
			in.rtPanic("nil *strings.Builder")
		}
		st := (*p).(Struct)
		buf, _ := st[1].(Slice)
		if len(buf) == 1 {
			if sb, ok := buf[0].(symBytes); ok {
				return p, sb.s
			}
		}
		bs, ok := concBytes(buf)
		if !ok {
			in.abort("unsupported: strings.Builder with symbolic bytes")
		}
		return p, string(bs)
	}
	builderSet := func(in *Interp, p *Value, v Value) {
		st := append(Struct{}, (*p).(Struct)...)
		switch s := v.(type) {
		case string:
			bs := make(Slice, len(s))
			for i := 0; i < len(s); i++ {
				bs[i] = BV(8, uint64(s[i]))
			}
			st[1] = bs
		case *SymStr:
			st[1] = in.symStringToBytes(s)
		}
		*p = st
	}
	reg("(*strings.Builder).WriteString", func(in *Interp, fr *frame, a []Value) Value {
		p, cur := builderGet(in, a[0])
		builderSet(in, p, in.strConcat(cur, a[1]))
		n := Value(mkInt(0))
		if s, ok := a[1].(string); ok {
			n = mkInt(int64(len(s)))
		}
		return Tuple{n, Iface{}}
	})
	reg("(*strings.Builder).WriteByte", func(in *Interp, fr *frame, a []Value) Value {
		p, cur := builderGet(in, a[0])
		c, ok := concInt(a[1])
		if !ok {
			in.abort("unsupported: strings.Builder.WriteByte with a symbolic byte")
		}
		builderSet(in, p, in.strConcat(cur, string([]byte{byte(c)})))
		return Iface{}
	})
	reg("(*strings.Builder).WriteRune", func(in *Interp, fr *frame, a []Value) Value {
		p, cur := builderGet(in, a[0])
		c, ok := concInt(a[1])
		if !ok {
			in.abort("unsupported: strings.Builder.WriteRune with a symbolic rune")
		}
		r := string(rune(c))
		builderSet(in, p, in.strConcat(cur, r))
		return Tuple{mkInt(int64(len(r))), Iface{}}
	})
	reg("(*strings.Builder).String", func(in *Interp, fr *frame, a []Value) Value {
		_, cur := builderGet(in, a[0])
		return cur
	})
	reg("(*strings.Builder).Len", func(in *Interp, fr *frame, a []Value) Value {
		_, cur := builderGet(in, a[0])
		switch s := cur.(type) {
		case string:
			return mkInt(int64(len(s)))
		case *SymStr:
			return in.symStrLen(s)
		}
		return mkInt(0)
	})
	reg("(*strings.Builder).Grow", func(in *Interp, fr *frame, a []Value) Value { return nil })
	reg("(*strings.Builder).Reset", func(in *Interp, fr *frame, a []Value) Value {
		p, _ := builderGet(in, a[0])
		builderSet(in, p, "")
		return nil
	})
	// sync/atomic: the interpreter switches goroutines only at synchronisation points, so plain loads and
	// stores are atomic
	for _, ty := range []string{"Int32", "Int64", "Uint32", "Uint64", "Uintptr", "Pointer"} {
		ty := ty
		reg("sync/atomic.Load"+ty, func(in *Interp, fr *frame, a []Value) Value {
			p, _ := a[0].(*Value)
			if p == nil {
				in.rtPanic("nil pointer dereference in atomic load")
			}
			return copyVal(*p)
		})
		reg("sync/atomic.Store"+ty, func(in *Interp, fr *frame, a []Value) Value {
			p, _ := a[0].(*Value)
			if p == nil {
				in.rtPanic("nil pointer dereference in atomic store")
			}
			*p = copyVal(a[1])
			return nil
		})
		reg("sync/atomic.Swap"+ty, func(in *Interp, fr *frame, a []Value) Value {
			p, _ := a[0].(*Value)
			old := copyVal(*p)
			*p = copyVal(a[1])
			return old
		})
		if ty != "Pointer" {
			reg("sync/atomic.Add"+ty, func(in *Interp, fr *frame, a []Value) Value {
				p, _ := a[0].(*Value)
				cur, _ := (*p).(*Term)
				d, _ := a[1].(*Term)
				n := BvBin(OAdd, cur, d)
				*p = n
				return n
			})
			reg("sync/atomic.CompareAndSwap"+ty, func(in *Interp, fr *frame, a []Value) Value {
				p, _ := a[0].(*Value)
				cur, _ := (*p).(*Term)
				old, _ := a[1].(*Term)
				if in.decide(Eq(cur, old)) {
					*p = copyVal(a[2])
					return tTrue
				}
				return tFalse
			})
		}
	}
	// encoding/json.Marshal works by reflection; its output only feeds log lines in the code under
	// analysis: an opaque text, no error
	jsonStub := func(in *Interp, fr *frame, a []Value) Value {
		return Tuple{Slice{BV(8, '{'), BV(8, '}')}, Iface{}}
	}
	reg("encoding/json.Marshal", jsonStub)
	reg("encoding/json.MarshalIndent", jsonStub)
	reg("internal/abi.NoEscape", func(in *Interp, fr *frame, a []Value) Value { return a[0] })
	reg("strings.Join", func(in *Interp, fr *frame, a []Value) Value {
		elems, _ := a[0].(Slice)
		var out Value = ""
		for i, e := range elems {
			if i > 0 {
				out = in.strConcat(out, a[1])
			}
			out = in.strConcat(out, e)
		}
		return out
	})
	reg("strings.Split", func(in *Interp, fr *frame, a []Value) Value {
		if ss, ok := a[0].(*SymStr); ok {
			sep, ok2 := a[1].(string)
			if !ok2 {
				in.abort("unsupported: strings.Split with symbolic separator")
			}
			return in.symSplit(ss, sep)
		}
		s0, ok0 := a[0].(string)
		s1, ok1 := a[1].(string)
		if !ok0 || !ok1 {
			in.abort("unsupported: strings.Split operands")
		}
		parts := strings.Split(s0, s1)
		out := make(Slice, len(parts))
		for i, p := range parts {
			out[i] = p
		}
		return out
	})
	reg("strings.Fields", func(in *Interp, fr *frame, a []Value) Value {
		if ss, ok := a[0].(*SymStr); ok {
			return in.symFields(ss)
		}
		parts := strings.Fields(a[0].(string))
		out := make(Slice, len(parts))
		for i, p := range parts {
			out[i] = p
		}
		return out
	})
	// strings.ToLower / ToUpper: computed on literals; identity on atoms whose alphabet has no letter of
	// the other case (decimal numbers; addresses and prefixes print lower-case hex); distributes over
	// concatenation and ite. Anything else is outside the string theory.
	caseMap := func(name string, f func(string) string, lower bool) {
		var mapTerm func(in *Interp, t *Term) *Term
		mapTerm = func(in *Interp, t *Term) *Term {
			if l, ok := litOf(t); ok {
				return litTerm(f(l))
			}
			if t.op == OIte {
				return Ite(t.args[0], mapTerm(in, t.args[1]), mapTerm(in, t.args[2]))
			}
			if t.op == OApp && t.name == "cat" {
				return App("cat", t.sort, mapTerm(in, t.args[0]), mapTerm(in, t.args[1]))
			}
			al := atomAlphabet(t)
			if al == "" || f(al) != al {
				in.abort("unsupported: " + name + " of a symbolic string outside the modelled alphabets")
			}
			return t
		}
		reg(name, func(in *Interp, fr *frame, a []Value) Value {
			if ss, ok := a[0].(*SymStr); ok {
				r := mapTerm(in, ss.t)
				if l, ok := litOf(r); ok {
					return l
				}
				return &SymStr{t: r}
			}
			return f(a[0].(string))
		})
	}
	caseMap("strings.ToLower", strings.ToLower, true)
	caseMap("strings.ToUpper", strings.ToUpper, false)
	reg("strings.TrimSpace", func(in *Interp, fr *frame, a []Value) Value {
		if ss, ok := a[0].(*SymStr); ok {
			return in.symTrimSpace(ss)
		}
		return strings.TrimSpace(a[0].(string))
	})

	// ---- strings built from data
	reg("(net.IP).String", func(in *Interp, fr *frame, a []Value) Value {
		ip, _ := a[0].(Slice)
		return in.ipStringValue(ip)
	})
	reg("strconv.Itoa", func(in *Interp, fr *frame, a []Value) Value { return decString(asTerm(a[0]), true) })
	reg("strconv.FormatInt", func(in *Interp, fr *frame, a []Value) Value {
		if b, ok := concInt(a[1]); !ok || b != 10 {
			in.abort("unsupported: FormatInt base")
		}
		return decString(asTerm(a[0]), true)
	})
	reg("strconv.FormatUint", func(in *Interp, fr *frame, a []Value) Value {
		if b, ok := concInt(a[1]); !ok || b != 10 {
			in.abort("unsupported: FormatUint base")
		}
		return decString(asTerm(a[0]), false)
	})
	// sha256: uninterpreted function H on strings, assumed collision-free on the inputs seen on a path
	reg("crypto/sha256.Sum256", func(in *Interp, fr *frame, a []Value) Value {
		data := a[0].(Slice)
		var st *Term
		if len(data) == 1 {
			if sb, ok := data[0].(symBytes); ok {
				st = in.strTerm(sb.s)
			}
		}
		if st == nil {
			bs, ok := concBytes(data)
			if !ok {
				in.abort("unsupported: sha256 of symbolic bytes")
			}
			st = litTerm(string(bs))
		}
		// The digest is H64(x) ++ G192(x): two uninterpreted functions. Assumption (listed in evidence):
		// distinct inputs seen on one path differ within the first 8 digest bytes.
		// Canonical form of the argument (choices lifted out of concatenations, literals merged), so
		// that equal texts built in different ways are hashed as the same term wherever possible.
		st = canonStr(st)
		h := App("H64", 64, st)
		g := App("G192", 192, st)
		p := in.path
		fresh := true
		for _, u := range p.hashTerms {
			if deepSame(u, st) {
				fresh = false
				break
			}
		}
		if fresh {
			for _, u := range p.hashTerms {
				eq := in.strTermEq(st, u)
				// distinct texts: different first 8 bytes; equal texts (however built): equal digests
				in.assumeAxiom(Or(eq, Not(Eq(h, App("H64", 64, u)))))
				in.assumeAxiom(Or(Not(eq), And(Eq(h, App("H64", 64, u)), Eq(g, App("G192", 192, u)))))
			}
			p.hashTerms = append(p.hashTerms, st)
		}
		out := make(Array, 32)
		for i := 0; i < 8; i++ {
			out[i] = Extract(h, 63-8*i, 56-8*i)
		}
		for i := 0; i < 24; i++ {
			out[8+i] = Extract(g, 191-8*i, 184-8*i)
		}
		return out
	})

	// concrete-only string/byte search primitives (assembly in the real runtime)
	concStr := func(in *Interp, v Value, what string) string {
		switch x := v.(type) {
		case string:
			return x
		case Slice:
			if b, ok := concBytes(x); ok {
				return string(b)
			}
		}
		in.abort("unsupported: %s on symbolic data", what)
		return ""
	}
	reg("internal/bytealg.CountString", func(in *Interp, fr *frame, a []Value) Value {
		c, ok := concInt(a[1])
		if !ok {
			in.abort("unsupported: CountString symbolic byte")
		}
		return mkInt(int64(strings.Count(concStr(in, a[0], "CountString"), string([]byte{byte(c)}))))
	})
	reg("internal/bytealg.Count", func(in *Interp, fr *frame, a []Value) Value {
		c, ok := concInt(a[1])
		if !ok {
			in.abort("unsupported: Count symbolic byte")
		}
		return mkInt(int64(strings.Count(concStr(in, a[0], "Count"), string([]byte{byte(c)}))))
	})
	reg("internal/bytealg.IndexString", func(in *Interp, fr *frame, a []Value) Value {
		return mkInt(int64(strings.Index(concStr(in, a[0], "IndexString"), concStr(in, a[1], "IndexString"))))
	})
	reg("internal/bytealg.Index", func(in *Interp, fr *frame, a []Value) Value {
		return mkInt(int64(strings.Index(concStr(in, a[0], "Index"), concStr(in, a[1], "Index"))))
	})
	reg("internal/bytealg.LastIndexByteString", func(in *Interp, fr *frame, a []Value) Value {
		c, _ := concInt(a[1])
		return mkInt(int64(strings.LastIndexByte(concStr(in, a[0], "LastIndexByteString"), byte(c))))
	})
	reg("internal/bytealg.LastIndexByte", func(in *Interp, fr *frame, a []Value) Value {
		c, _ := concInt(a[1])
		return mkInt(int64(strings.LastIndexByte(concStr(in, a[0], "LastIndexByte"), byte(c))))
	})
	reg("internal/stringslite.Index", func(in *Interp, fr *frame, a []Value) Value {
		return mkInt(int64(strings.Index(concStr(in, a[0], "Index"), concStr(in, a[1], "Index"))))
	})

	// debug dumps (JSON rendering of resources for log lines)
	for _, n := range []string{"dumpResource", "dumpClusterResources", "dumpConfig"} {
		reg("go.universe.tf/metallb/internal/k8s/controllers."+n, func(in *Interp, fr *frame, a []Value) Value { return "" })
	}

	// ---- condition variables, timers, scheduling
	reg("(*sync.Cond).Wait", func(in *Interp, fr *frame, a []Value) Value { in.condWait(fr, a[0].(*Value)); return nil })
	reg("(*sync.Cond).Signal", func(in *Interp, fr *frame, a []Value) Value { in.condSignal(a[0].(*Value), false); return nil })
	reg("(*sync.Cond).Broadcast", func(in *Interp, fr *frame, a []Value) Value { in.condSignal(a[0].(*Value), true); return nil })
	reg("time.After", func(in *Interp, fr *frame, a []Value) Value { return in.newTimerChan() })
	// time.Sleep blocks until the harness environment lets time pass (verifrt.WakeSleepers); with a
	// single goroutine it returns immediately.
	reg("time.Sleep", func(in *Interp, fr *frame, a []Value) Value {
		if in.sched != nil && len(in.sched.gs) > 1 {
			s := in.sched
			gen := s.sleepGen
			s.yield(func() bool { return s.sleepGen != gen }, "sleep")
		}
		return nil
	})
	reg(vrtPath+"WakeSleepers", func(in *Interp, fr *frame, a []Value) Value {
		if in.sched != nil {
			in.sched.sleepGen++
		}
		return nil
	})
	reg("time.NewTicker", func(in *Interp, fr *frame, a []Value) Value {
		// tickers never fire under the engine (keepalive timing is outside the model)
		tt := in.pkgType("time", "Ticker")
		st := zero(tt).(Struct)
		st[0] = &Chan{cap: 1}
		v := Value(st)
		return &v
	})
	reg("(*time.Ticker).Stop", func(in *Interp, fr *frame, a []Value) Value { return nil })
	reg("(*time.Ticker).Reset", func(in *Interp, fr *frame, a []Value) Value { return nil })
	reg("context.WithTimeout", func(in *Interp, fr *frame, a []Value) Value {
		return Tuple{a[0], &Native{name: "cancel", fn: func(in *Interp, args []Value) Value { return nil }}}
	})
	reg("(context.backgroundCtx).Deadline", func(in *Interp, fr *frame, a []Value) Value {
		return Tuple{zero(in.pkgType("time", "Time")), tFalse}
	})
	// the TCP-MD5 dialer is the environment: the harness provides the connection
	reg("go.universe.tf/metallb/internal/bgp/native.dialMD5", func(in *Interp, fr *frame, a []Value) Value {
		p := in.prog.ImportedPackage("go.universe.tf/metallb/internal/bgp/native")
		hook := p.Func("vhDial")
		if hook == nil {
			in.abort("dialMD5: no harness dial hook")
		}
		return in.call(fr, 0, hook, nil)
	})
	reg(vrtPath+"Yield", func(in *Interp, fr *frame, a []Value) Value {
		// let every other goroutine run until it blocks: the caller is blocked until nobody else can run
		if in.sched == nil {
			return nil
		}
		s := in.sched
		me := s.cur
		s.yield(func() bool {
			for _, g := range s.gs {
				if g != me && !g.done && (g.blocked == nil || g.blocked()) {
					return false
				}
			}
			return true
		}, "harness yield")
		return nil
	})
	reg(vrtPath+"TimerPending", func(in *Interp, fr *frame, a []Value) Value { return Bool(len(in.pendingTimers()) > 0) })
	reg(vrtPath+"FireTimer", func(in *Interp, fr *frame, a []Value) Value {
		ts := in.pendingTimers()
		if len(ts) == 0 {
			return tFalse
		}
		t := ts[len(ts)-1] // the most recently armed timer is the live one
		for _, o := range ts {
			o.fired = true // older timers were replaced by the program and can never be observed again
		}
		t.buf = append(t.buf, zero(in.pkgType("time", "Time")))
		return tTrue
	})
	reg(vrtPath+"Track", func(in *Interp, fr *frame, a []Value) Value {
		if in.tracked == nil {
			in.tracked = map[*Value]bool{}
		}
		var walk func(v Value, depth int)
		seen := map[*Value]bool{}
		walk = func(v Value, depth int) {
			if depth > 8 {
				return
			}
			switch x := v.(type) {
			case *Value:
				if x == nil || seen[x] {
					return
				}
				seen[x] = true
				in.tracked[x] = true
				walk(*x, depth+1)
			case Struct:
				for i := range x {
					in.tracked[&x[i]] = true
					walk(x[i], depth+1)
				}
			case Array:
				for i := range x {
					in.tracked[&x[i]] = true
					walk(x[i], depth+1)
				}
			case Slice:
				for i := range x {
					in.tracked[&x[i]] = true
					walk(x[i], depth+1)
				}
			case Iface:
				walk(x.v, depth+1)
			case *Map:
				if x != nil {
					if in.trackedMaps == nil {
						in.trackedMaps = map[*Map]bool{}
					}
					in.trackedMaps[x] = true
					for _, e := range x.order {
						walk(e.val, depth+1)
					}
				}
			}
		}
		if itf, ok := a[0].(Iface); ok {
			walk(itf.v, 0)
		}
		return nil
	})
	reg(vrtPath+"StopTracking", func(in *Interp, fr *frame, a []Value) Value {
		in.tracked, in.trackedMaps = nil, nil
		return nil
	})
	reg(vrtPath+"RaceReport", func(in *Interp, fr *frame, a []Value) Value { return in.raceReport })
	reg(vrtPath+"RaceFree", func(in *Interp, fr *frame, a []Value) Value { return Bool(in.raceReport == "") })

	// ---- os
	reg("os.Getenv", func(in *Interp, fr *frame, a []Value) Value { return "" })
	reg("os.LookupEnv", func(in *Interp, fr *frame, a []Value) Value { return Tuple{"", tFalse} })
	// Files: an in-memory file system per path. Writing below a directory named "verif-missing-dir"
	// fails (the harness' way of injecting a write failure that also fails natively).
	reg("os.WriteFile", func(in *Interp, fr *frame, a []Value) Value {
		name, ok := a[0].(string)
		if !ok {
			in.abort("unsupported: os.WriteFile with a symbolic file name")
		}
		if strings.Contains(name, "verif-missing-dir/") {
			return in.newError("os.WriteFile", nil)
		}
		if in.files == nil {
			in.files = map[string]Value{}
		}
		data, _ := a[1].(Slice)
		in.files[name] = append(Slice{}, data...)
		return Iface{}
	})
	reg("os.ReadFile", func(in *Interp, fr *frame, a []Value) Value {
		name, ok := a[0].(string)
		if !ok {
			in.abort("unsupported: os.ReadFile with a symbolic file name")
		}
		if d, ok := in.files[name]; ok {
			return Tuple{append(Slice{}, d.(Slice)...), Iface{}}
		}
		return Tuple{Slice(nil), in.newError("os.ReadFile", nil)}
	})
	reg("os.Hostname", func(in *Interp, fr *frame, a []Value) Value { return Tuple{"verif-host", Iface{}} })

	// ---- runtime odds and ends
	reg("runtime.KeepAlive", func(in *Interp, fr *frame, a []Value) Value { return nil })
	reg("internal/race.Enabled", nil)
}

// wholeTerm recognises a byte slice that is exactly the big-endian byte image of one wide term.
func wholeTerm(x Slice) (*Term, bool) {
	if len(x) < 8 {
		return nil, false
	}
	var base *Term
	n := len(x)
	for i, e := range x {
		t, ok := e.(*Term)
		if !ok || t.op != OExtract || t.hi != 8*(n-i)-1 || t.lo != 8*(n-i-1) {
			return nil, false
		}
		if base == nil {
			base = t.args[0]
		} else if base != t.args[0] {
			return nil, false
		}
	}
	if int(base.sort) != 8*n {
		return nil, false
	}
	return base, true
}

func isDoneSet(v Value) bool {
	switch x := v.(type) {
	case *Term:
		return x.op == OConst && x.val != 0
	case Struct:
		for _, f := range x {
			if isDoneSet(f) {
				return true
			}
		}
	}
	return false
}

func setDone(p *Value) {
	switch x := (*p).(type) {
	case *Term:
		*p = BV(x.sort, 1)
	case Struct:
		for i := range x {
			if t, ok := x[i].(*Term); ok {
				x[i] = BV(t.sort, 1)
				return
			}
			if _, ok := x[i].(Struct); ok {
				setDone(&x[i])
			}
		}
	}
}

// ---- helpers to call into interpreted code

func (in *Interp) pkgFunc(pkgPath, name string) *ssa.Function {
	p := in.prog.ImportedPackage(pkgPath)
	if p == nil {
		in.abort("package %s not loaded", pkgPath)
	}
	f := p.Func(name)
	if f == nil {
		in.abort("function %s.%s not found", pkgPath, name)
	}
	return f
}

func (in *Interp) pkgType(pkgPath, name string) types.Type {
	p := in.prog.ImportedPackage(pkgPath)
	if p == nil {
		in.abort("package %s not loaded", pkgPath)
	}
	t := p.Type(name)
	if t == nil {
		in.abort("type %s.%s not found", pkgPath, name)
	}
	return t.Type()
}

// invoke calls method name on the dynamic value of itf.
func (in *Interp) invoke(fr *frame, itf Iface, name string, args ...Value) Value {
	if itf.t == nil {
		in.rtPanic("invalid memory address or nil pointer dereference (nil interface)")
	}
	if _, isOpaque := itf.v.(Opaque); isOpaque {
		return nil
	}
	ms := in.prog.MethodSets.MethodSet(itf.t)
	var sel *types.Selection
	for i := 0; i < ms.Len(); i++ {
		if ms.At(i).Obj().Name() == name {
			sel = ms.At(i)
			break
		}
	}
	if sel == nil {
		in.abort("invoke: %v has no method %s", itf.t, name)
	}
	f := in.prog.MethodValue(sel)
	return in.call(fr, 0, f, append([]Value{itf.v}, args...))
}

func hasMethod(prog *ssa.Program, t types.Type, name string) bool {
	ms := prog.MethodSets.MethodSet(t)
	for i := 0; i < ms.Len(); i++ {
		if ms.At(i).Obj().Name() == name {
			return true
		}
	}
	return false
}

// ---- errors

// newError builds an error value whose text is irrelevant; wrapped is the %w operand if any.
func (in *Interp) newError(tag string, wrapped Value) Value {
	msg := &SymStr{opaque: true}
	if wrapped != nil {
		wt := in.pkgType("fmt", "wrapError")
		s := Value(Struct{msg, wrapped})
		return Iface{t: types.NewPointer(wt), v: &s}
	}
	et := in.pkgType("errors", "errorString")
	s := Value(Struct{msg})
	return Iface{t: types.NewPointer(et), v: &s}
}

func intrErrorf(in *Interp, fr *frame, a []Value) Value {
	format, _ := a[0].(string)
	var wrapped Value
	if strings.Contains(format, "%w") {
		// find the operand matching %w
		args := a[1].(Slice)
		idx := 0
		for i := 0; i+1 < len(format); i++ {
			if format[i] != '%' {
				continue
			}
			j := i + 1
			for j < len(format) && strings.ContainsRune("+-# 0123456789.[]*", rune(format[j])) {
				j++
			}
			if j >= len(format) {
				break
			}
			if format[j] == '%' {
				i = j
				continue
			}
			if format[j] == 'w' && idx < len(args) {
				if e, ok := args[idx].(Iface); ok && e.t != nil {
					wrapped = e
				}
			}
			idx++
			i = j
		}
	}
	return in.newError("fmt.Errorf", wrapped)
}

func errorsUnwrap(in *Interp, fr *frame, e Iface) []Iface {
	if e.t == nil || !hasMethod(in.prog, e.t, "Unwrap") {
		return nil
	}
	r := in.invoke(fr, e, "Unwrap")
	switch r := r.(type) {
	case Iface:
		if r.t == nil {
			return nil
		}
		return []Iface{r}
	case Slice:
		var out []Iface
		for _, x := range r {
			if xi := x.(Iface); xi.t != nil {
				out = append(out, xi)
			}
		}
		return out
	}
	return nil
}

func intrErrorsIs(in *Interp, fr *frame, a []Value) Value {
	err, target := a[0].(Iface), a[1].(Iface)
	if err.t == nil || target.t == nil {
		return Bool(err.t == nil && target.t == nil)
	}
	var is func(e Iface) bool
	is = func(e Iface) bool {
		if types.Comparable(target.t) && types.Identical(e.t, target.t) {
			if in.decide(in.eqVal(e.v, target.v)) {
				return true
			}
		}
		if hasMethod(in.prog, e.t, "Is") {
			if in.decide(asTerm(in.invoke(fr, e, "Is", target))) {
				return true
			}
		}
		for _, u := range errorsUnwrap(in, fr, e) {
			if is(u) {
				return true
			}
		}
		return false
	}
	return Bool(is(err))
}

func intrErrorsAs(in *Interp, fr *frame, a []Value) Value {
	err := a[0].(Iface)
	tgt := a[1].(Iface)
	if err.t == nil {
		return tFalse
	}
	pt, ok := tgt.t.(*types.Pointer)
	if !ok {
		in.abort("errors.As: target not a pointer")
	}
	want := pt.Elem()
	dst := tgt.v.(*Value)
	var as func(e Iface) bool
	as = func(e Iface) bool {
		if iface, ok := underlying(want).(*types.Interface); ok {
			if types.Implements(e.t, iface) {
				*dst = e
				return true
			}
		} else if types.Identical(e.t, want) {
			*dst = copyVal(e.v)
			return true
		}
		for _, u := range errorsUnwrap(in, fr, e) {
			if as(u) {
				return true
			}
		}
		return false
	}
	return Bool(as(err))
}

// ---- fmt.Sprintf and friends: strings whose text the program may depend on

func intrSprintf(in *Interp, fr *frame, a []Value) Value {
	format, ok := a[0].(string)
	if !ok {
		return &SymStr{opaque: true}
	}
	return in.sprintf(fr, format, a[1].(Slice))
}

func mathPow(x, y float64) float64 { return math.Pow(x, y) }
func mathPowOld(x, y float64) float64 {
	r := 1.0
	if y == float64(int64(y)) && y >= 0 && y < 1100 {
		for i := int64(0); i < int64(y); i++ {
			r *= x
		}
		return r
	}
	panic(abortPath{fmt.Sprintf("unsupported: math.Pow(%v,%v)", x, y)})
}
