package main

import (
	"fmt"
	"go/constant"
	"go/types"
	"math/big"
	"strconv"
	"strings"
	"sync"

	"golang.org/x/tools/go/ssa"
)

// Value is one of:
//
//	*Term            bool and every integer type (Bool / BitVec sort); concrete values are constants
//	string, *SymStr  strings
//	float64          concrete floats (float32/float64)
//	*Value           pointers (nil pointer = (*Value)(nil))
//	Struct, Array    aggregates (copied on load/store)
//	Slice            slice header with native aliasing ([]Value)
//	*Map, *Chan
//	Iface            interface value
//	*Closure, *ssa.Function, *ssa.Builtin, *Native   functions
//	Tuple
//	Opaque           black-hole value
type Value interface{}

type Struct []Value
type Array []Value
type Slice []Value
type Tuple []Value

type Iface struct {
	t types.Type
	v Value
}

type Closure struct {
	Fn  *ssa.Function
	Env []Value
}

// Native is an engine-implemented function value (e.g. reflectlite.Swapper result).
type Native struct {
	name string
	fn   func(in *Interp, args []Value) Value
}

type Opaque struct{ tag string }

// UnsafePtr wraps a pointer converted to unsafe.Pointer.
type UnsafePtr struct{ p Value }

// SymStr is a symbolic string (term of sort S) or an opaque (text-irrelevant) string.
type SymStr struct {
	t      *Term
	opaque bool
	// rope: optional structure for strings built by concatenation of pieces
	rope []ropeSeg
}

type ropeSeg struct {
	lit string
	sym *SymStr
}

func underlying(t types.Type) types.Type { return types.Unalias(t).Underlying() }

func intWidth(b *types.Basic) (Sort, bool) { // width, signed
	switch b.Kind() {
	case types.Int8:
		return 8, true
	case types.Int16:
		return 16, true
	case types.Int32, types.UntypedRune:
		return 32, true
	case types.Int64, types.Int, types.UntypedInt:
		return 64, true
	case types.Uint8:
		return 8, false
	case types.Uint16:
		return 16, false
	case types.Uint32:
		return 32, false
	case types.Uint64, types.Uint, types.Uintptr:
		return 64, false
	}
	return 0, false
}

func isIntType(t types.Type) (Sort, bool, bool) {
	if b, ok := underlying(t).(*types.Basic); ok && b.Info()&types.IsInteger != 0 {
		w, s := intWidth(b)
		return w, s, true
	}
	return 0, false, false
}

var zeroCache sync.Map

func zero(t types.Type) Value {
	switch t := types.Unalias(t).(type) {
	case *types.Basic:
		switch {
		case t.Kind() == types.UntypedNil:
			panic("untyped nil has no zero value")
		case t.Info()&types.IsBoolean != 0:
			return tFalse
		case t.Info()&types.IsInteger != 0:
			w, _ := intWidth(t)
			return BV(w, 0)
		case t.Info()&types.IsString != 0:
			return ""
		case t.Info()&types.IsFloat != 0:
			return float64(0)
		case t.Info()&types.IsComplex != 0:
			return complex128(0)
		case t.Kind() == types.UnsafePointer:
			return UnsafePtr{}
		}
		panic(fmt.Sprint("zero for unexpected basic type: ", t))
	case *types.Pointer:
		return (*Value)(nil)
	case *types.Array:
		a := make(Array, t.Len())
		for i := range a {
			a[i] = zero(t.Elem())
		}
		return a
	case *types.Named:
		return zero(t.Underlying())
	case *types.Interface:
		return Iface{}
	case *types.Slice:
		return Slice(nil)
	case *types.Struct:
		s := make(Struct, t.NumFields())
		for i := range s {
			s[i] = zero(t.Field(i).Type())
		}
		return s
	case *types.Tuple:
		if t.Len() == 1 {
			return zero(t.At(0).Type())
		}
		s := make(Tuple, t.Len())
		for i := range s {
			s[i] = zero(t.At(i).Type())
		}
		return s
	case *types.Chan:
		return (*Chan)(nil)
	case *types.Map:
		return (*Map)(nil)
	case *types.Signature:
		return (*Closure)(nil)
	}
	panic(fmt.Sprint("zero: unexpected ", t))
}

// copyVal returns a copy of v (aggregates are value types).
func copyVal(v Value) Value {
	switch v := v.(type) {
	case Struct:
		a := make(Struct, len(v))
		for i := range v {
			a[i] = copyVal(v[i])
		}
		return a
	case Array:
		a := make(Array, len(v))
		for i := range v {
			a[i] = copyVal(v[i])
		}
		return a
	case Tuple:
		a := make(Tuple, len(v))
		copy(a, v)
		return a
	}
	return v
}

// store writes v into *addr preserving interior pointers of aggregates.
func store(addr *Value, v Value) {
	switch v := v.(type) {
	case Struct:
		if dst, ok := (*addr).(Struct); ok && len(dst) == len(v) {
			for i := range v {
				store(&dst[i], v[i])
			}
			return
		}
		*addr = copyVal(v)
	case Array:
		if dst, ok := (*addr).(Array); ok && len(dst) == len(v) {
			for i := range v {
				store(&dst[i], v[i])
			}
			return
		}
		*addr = copyVal(v)
	default:
		*addr = v
	}
}

var constCache sync.Map // *ssa.Const -> Value

func constValue(c *ssa.Const) Value {
	if v, ok := constCache.Load(c); ok {
		return v
	}
	v := constValue1(c)
	constCache.Store(c, v)
	return v
}

func constValue1(c *ssa.Const) Value {
	if c.Value == nil {
		return zero(c.Type())
	}
	if t, ok := underlying(c.Type()).(*types.Basic); ok {
		switch {
		case t.Info()&types.IsBoolean != 0:
			return Bool(constant.BoolVal(c.Value))
		case t.Info()&types.IsInteger != 0:
			w, _ := intWidth(t)
			if i, ok := constant.Int64Val(constant.ToInt(c.Value)); ok {
				return BV(w, uint64(i))
			}
			u, _ := constant.Uint64Val(constant.ToInt(c.Value))
			return BV(w, u)
		case t.Info()&types.IsString != 0:
			if c.Value.Kind() == constant.String {
				return constant.StringVal(c.Value)
			}
			return string(rune(c.Int64()))
		case t.Info()&types.IsFloat != 0:
			return c.Float64()
		case t.Info()&types.IsComplex != 0:
			return c.Complex128()
		}
	}
	panic(fmt.Sprintf("constValue: %s", c))
}

// ---- conversions between engine values and Go values

func asTerm(v Value) *Term {
	t, ok := v.(*Term)
	if !ok {
		panic(fmt.Sprintf("expected scalar term, got %T", v))
	}
	return t
}

func concInt(v Value) (int64, bool) {
	t, ok := v.(*Term)
	if !ok || t.op != OConst {
		return 0, false
	}
	return t.sval(), true
}

func concBool(v Value) (bool, bool) {
	t, ok := v.(*Term)
	if !ok || t.op != OConst {
		return false, false
	}
	return t.val == 1, true
}

func mkInt(v int64) *Term   { return BV(64, uint64(v)) }
func mkByte(b byte) *Term   { return BV(8, uint64(b)) }
func mkBoolV(b bool) *Term  { return Bool(b) }

// bytesToSlice converts concrete bytes to a byte slice value.
func bytesToSlice(b []byte) Slice {
	s := make(Slice, len(b))
	for i, c := range b {
		s[i] = mkByte(c)
	}
	return s
}

// concBytes returns the concrete bytes of a byte slice / array value.
func concBytes(v []Value) ([]byte, bool) {
	out := make([]byte, len(v))
	for i, e := range v {
		t, ok := e.(*Term)
		if !ok || t.op != OConst {
			return nil, false
		}
		out[i] = byte(t.val)
	}
	return out, true
}

// ---- concrete keys for maps

// concKey returns a canonical encoding of v when it is fully concrete and comparable.
func concKey(v Value) (string, bool) {
	var sb strings.Builder
	if !writeKey(&sb, v) {
		return "", false
	}
	return sb.String(), true
}

func writeKey(sb *strings.Builder, v Value) bool {
	switch v := v.(type) {
	case *Term:
		if v.op != OConst {
			return false
		}
		sb.WriteString(strconv.FormatUint(v.val, 16))
		sb.WriteByte(':')
		sb.WriteString(strconv.Itoa(int(v.sort)))
		sb.WriteByte(';')
	case string:
		sb.WriteString(strconv.Quote(v))
		sb.WriteByte(';')
	case *SymStr:
		return false
	case float64:
		sb.WriteString(strconv.FormatFloat(v, 'g', -1, 64))
		sb.WriteByte(';')
	case *Value:
		fmt.Fprintf(sb, "p%p;", v)
	case Struct:
		sb.WriteByte('{')
		for _, f := range v {
			if !writeKey(sb, f) {
				return false
			}
		}
		sb.WriteByte('}')
	case Array:
		sb.WriteByte('[')
		for _, f := range v {
			if !writeKey(sb, f) {
				return false
			}
		}
		sb.WriteByte(']')
	case Iface:
		if v.t == nil {
			sb.WriteString("nil;")
			return true
		}
		sb.WriteString(typeKey(v.t))
		sb.WriteByte('!')
		return writeKey(sb, v.v)
	case *Map:
		fmt.Fprintf(sb, "m%p;", v)
	case *Chan:
		fmt.Fprintf(sb, "c%p;", v)
	default:
		return false
	}
	return true
}

var typeKeyCache sync.Map

func typeKey(t types.Type) string {
	if s, ok := typeKeyCache.Load(t); ok {
		return s.(string)
	}
	s := types.TypeString(t, nil)
	typeKeyCache.Store(t, s)
	return s
}

// ---- debugging output

func valString(v Value) string {
	var sb strings.Builder
	writeVal(&sb, v, 0)
	return sb.String()
}

func writeVal(sb *strings.Builder, v Value, d int) {
	if d > 6 {
		sb.WriteString("…")
		return
	}
	switch v := v.(type) {
	case nil:
		sb.WriteString("<nil>")
	case *Term:
		sb.WriteString(v.String())
	case string:
		sb.WriteString(strconv.Quote(v))
	case *SymStr:
		if v.opaque {
			sb.WriteString("<opaque-str>")
		} else {
			sb.WriteString("S:" + v.t.String())
		}
	case *Value:
		if v == nil {
			sb.WriteString("nilptr")
		} else {
			sb.WriteString("&")
			writeVal(sb, *v, d+1)
		}
	case Struct:
		sb.WriteString("{")
		for i, f := range v {
			if i > 0 {
				sb.WriteString(" ")
			}
			writeVal(sb, f, d+1)
		}
		sb.WriteString("}")
	case Array:
		sb.WriteString("[")
		for i, f := range v {
			if i > 0 {
				sb.WriteString(" ")
			}
			writeVal(sb, f, d+1)
		}
		sb.WriteString("]")
	case Slice:
		if v == nil {
			sb.WriteString("nilslice")
			return
		}
		sb.WriteString("[]{")
		for i, f := range v {
			if i > 0 {
				sb.WriteString(" ")
			}
			writeVal(sb, f, d+1)
		}
		sb.WriteString("}")
	case Tuple:
		sb.WriteString("(")
		for i, f := range v {
			if i > 0 {
				sb.WriteString(", ")
			}
			writeVal(sb, f, d+1)
		}
		sb.WriteString(")")
	case Iface:
		if v.t == nil {
			sb.WriteString("nil-iface")
			return
		}
		sb.WriteString("iface<" + typeKey(v.t) + ">(")
		writeVal(sb, v.v, d+1)
		sb.WriteString(")")
	case *Map:
		if v == nil {
			sb.WriteString("nilmap")
			return
		}
		sb.WriteString("map{")
		for i, e := range v.order {
			if e.deleted {
				continue
			}
			if i > 0 {
				sb.WriteString(", ")
			}
			writeVal(sb, e.key, d+1)
			sb.WriteString(": ")
			writeVal(sb, e.val, d+1)
		}
		sb.WriteString("}")
	case *Closure:
		if v == nil {
			sb.WriteString("nilfunc")
		} else {
			sb.WriteString("closure:" + v.Fn.String())
		}
	case *ssa.Function:
		sb.WriteString("func:" + v.String())
	default:
		fmt.Fprintf(sb, "%T(%v)", v, v)
	}
}

var _ = big.NewInt
