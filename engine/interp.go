package main

import (
	"fmt"
	"runtime/debug"
	"go/token"
	"go/types"
	"os"
	"slices"
	"strings"
	"sync"

	"golang.org/x/tools/go/ssa"
)

// ---- control-flow panics used by the engine (never visible to target defers)

type targetPanic struct{ v Value } // a Go panic in the interpreted program

type abortPath struct{ reason string } // inconclusive: unsupported / bound exceeded / solver unknown
type prunePath struct{}                // Assume(false)
type violationPath struct{}            // assertion failed (counterexample recorded)
type endPath struct{}                  // harness asked to stop this path normally
type engineCrash struct {              // engine bug or unsupported value shape: path inconclusive
	msg, stack, where string
}

func isEnginePanic(p interface{}) bool {
	switch p.(type) {
	case abortPath, prunePath, violationPath, endPath, mergeAbort, engineCrash, killGoroutine, deadlockPanic:
		return true
	}
	return false
}

// ---- shared per-function information

type fnInfo struct {
	idx       map[ssa.Value]int
	nregs     int
	intrinsic intrinsicFn
	name      string
	product   bool // MetalLB product code (not harness, not library)
	harness   bool
	pure      bool
}

type intrinsicFn func(in *Interp, fr *frame, args []Value) Value

var fnInfoCache sync.Map // *ssa.Function -> *fnInfo

func (e *Engine) info(fn *ssa.Function) *fnInfo {
	if fi, ok := fnInfoCache.Load(fn); ok {
		return fi.(*fnInfo)
	}
	fi := &fnInfo{idx: map[ssa.Value]int{}}
	fi.name = fn.String()
	n := 0
	for _, p := range fn.Params {
		fi.idx[p] = n
		n++
	}
	for _, p := range fn.FreeVars {
		fi.idx[p] = n
		n++
	}
	for _, b := range fn.Blocks {
		for _, ins := range b.Instrs {
			if v, ok := ins.(ssa.Value); ok {
				fi.idx[v] = n
				n++
			}
		}
	}
	fi.nregs = n
	fi.intrinsic = lookupIntrinsic(fn, fi.name)
	if fn.Pkg != nil || fn.Origin() != nil || fn.Parent() != nil {
		pos := fn.Pos()
		f := fn
		for f.Parent() != nil {
			f = f.Parent()
		}
		var path string
		if f.Pkg != nil {
			path = f.Pkg.Pkg.Path()
		} else if f.Origin() != nil && f.Origin().Pkg != nil {
			path = f.Origin().Pkg.Pkg.Path()
		}
		if strings.HasPrefix(path, "go.universe.tf/metallb") {
			file := ""
			if pos.IsValid() {
				file = fn.Prog.Fset.Position(pos).Filename
			}
			if strings.Contains(file, "zz_verif") || strings.HasSuffix(path, "/verifrt") {
				fi.harness = true
			} else {
				fi.product = true
			}
		}
	}
	fi.pure = e.pureFns[fi.name]
	act, _ := fnInfoCache.LoadOrStore(fn, fi)
	return act.(*fnInfo)
}

// ---- frames

type deferred struct {
	fn    Value
	args  []Value
	instr *ssa.Defer
	tail  *deferred
}

type frame struct {
	in               *Interp
	caller           *frame
	fn               *ssa.Function
	fi               *fnInfo
	block, prevBlock *ssa.BasicBlock
	regs             []Value
	locals           []Value
	defers           *deferred
	result           Value
	panicking        bool
	panic            interface{}
	phitemps         []Value
	cur              ssa.Instruction
}

// Interp is the per-path interpreter state (one per worker, reset per path).
type Interp struct {
	eng     *Engine
	w       *Worker
	prog    *ssa.Program
	globals map[*ssa.Global]*Value
	ginit   map[*ssa.Global]bool
	path    *Path
	depth   int
	gor     *goroutine // current goroutine (scheduler)
	sched   *scheduler
	stubs   map[string]int
	files   map[string]Value // in-memory file system of os.WriteFile / os.ReadFile (per path)
	pools   map[*Value][]Value // items kept by the program's own sync.Pools (per path)
	fnCount map[string]int
	initEnv map[ssa.Value]Value
	initBusy map[ssa.Value]bool
	curFrame *frame
	sites    map[string]int
	tracked  map[*Value]bool
	trackedMaps map[*Map]bool
	raceReport string
}

func (fr *frame) get(key ssa.Value) Value {
	switch key := key.(type) {
	case nil:
		return nil
	case *ssa.Const:
		return constValue(key)
	case *ssa.Function, *ssa.Builtin:
		return key
	case *ssa.Global:
		return fr.in.globalAddr(key)
	}
	if i, ok := fr.fi.idx[key]; ok {
		return fr.regs[i]
	}
	panic(fmt.Sprintf("get: no value for %T: %v in %s", key, key.Name(), fr.fn))
}

func (fr *frame) set(key ssa.Value, v Value) {
	fr.regs[fr.fi.idx[key]] = v
}

func (in *Interp) abort(format string, a ...interface{}) {
	panic(abortPath{fmt.Sprintf(format, a...)})
}

func (in *Interp) rtPanic(msg string) {
	where := ""
	if fr := in.curFrame; fr != nil {
		if fr.cur != nil {
			where = " at " + fr.fn.Prog.Fset.Position(fr.cur.Pos()).String()
		}
		for c, n := fr, 0; c != nil && n < 6; c, n = c.caller, n+1 {
			where += " <- " + c.fi.name
		}
	}
	panic(targetPanic{Iface{t: types.Typ[types.String], v: "runtime error: " + msg + where}})
}

func (fr *frame) runDefer(d *deferred) {
	var ok bool
	defer func() {
		if !ok {
			p := recover()
			if isEnginePanic(p) {
				panic(p)
			}
			if _, isT := p.(targetPanic); !isT {
				panic(p) // engine bug: let it crash with its stack
			}
			fr.panicking = true
			fr.panic = p
		}
	}()
	fr.in.call(fr, d.instr.Pos(), d.fn, d.args)
	ok = true
}

func (fr *frame) runDefers() {
	for d := fr.defers; d != nil; d = d.tail {
		fr.runDefer(d)
	}
	fr.defers = nil
	if fr.panicking {
		panic(fr.panic)
	}
}

func (in *Interp) lookupMethod(typ types.Type, meth *types.Func) *ssa.Function {
	return in.prog.LookupMethod(typ, meth.Pkg(), meth.Name())
}

type continuation int

const (
	kNext continuation = iota
	kReturn
	kJump
)

func (in *Interp) visitInstr(fr *frame, instr ssa.Instruction) continuation {
	in.path.ninstr++
	in.curFrame = fr
	if in.path.ninstr > in.eng.maxInstr {
		in.abort("unwinding: instruction budget %d exceeded", in.eng.maxInstr)
	}
	switch instr := instr.(type) {
	case *ssa.DebugRef:

	case *ssa.UnOp:
		fr.set(instr, in.unop(fr, instr, fr.get(instr.X)))

	case *ssa.BinOp:
		fr.set(instr, in.binop(instr.Op, instr.X.Type(), instr.Y.Type(), fr.get(instr.X), fr.get(instr.Y)))

	case *ssa.Call:
		fn, args := in.prepareCall(fr, &instr.Call)
		fr.set(instr, in.call(fr, instr.Pos(), fn, args))

	case *ssa.ChangeInterface:
		fr.set(instr, fr.get(instr.X))

	case *ssa.ChangeType:
		fr.set(instr, fr.get(instr.X))

	case *ssa.Convert:
		fr.set(instr, in.conv(instr.Type(), instr.X.Type(), fr.get(instr.X)))

	case *ssa.SliceToArrayPointer:
		x := fr.get(instr.X).(Slice)
		n := int(underlying(instr.Type().(*types.Pointer).Elem()).(*types.Array).Len())
		if len(x) < n {
			in.rtPanic("cannot convert slice to array pointer: length too short")
		}
		if x == nil {
			fr.set(instr, (*Value)(nil))
		} else {
			// Arrays are separate objects in this representation: aliasing between the
			// slice and the array pointer cannot be kept.
			in.abort("unsupported: SliceToArrayPointer")
		}

	case *ssa.MakeInterface:
		fr.set(instr, Iface{t: instr.X.Type(), v: fr.get(instr.X)})

	case *ssa.Extract:
		fr.set(instr, fr.get(instr.Tuple).(Tuple)[instr.Index])

	case *ssa.Slice:
		fr.set(instr, in.sliceOp(fr, instr))

	case *ssa.Return:
		switch len(instr.Results) {
		case 0:
		case 1:
			fr.result = fr.get(instr.Results[0])
		default:
			res := make(Tuple, len(instr.Results))
			for i, r := range instr.Results {
				res[i] = fr.get(r)
			}
			fr.result = res
		}
		fr.block = nil
		return kReturn

	case *ssa.RunDefers:
		fr.runDefers()

	case *ssa.Panic:
		panic(targetPanic{fr.get(instr.X)})

	case *ssa.Send:
		in.chanSend(fr.get(instr.Chan).(*Chan), fr.get(instr.X))

	case *ssa.Store:
		addr := fr.get(instr.Addr).(*Value)
		if addr == nil {
			in.rtPanic("invalid memory address or nil pointer dereference")
		}
		in.noteAccessDeep(addr, true)
		store(addr, fr.get(instr.Val))

	case *ssa.If:
		succ := 1
		if in.decide(asTerm(fr.get(instr.Cond))) {
			succ = 0
		}
		fr.prevBlock, fr.block = fr.block, fr.block.Succs[succ]
		return kJump

	case *ssa.Jump:
		fr.prevBlock, fr.block = fr.block, fr.block.Succs[0]
		return kJump

	case *ssa.Defer:
		fn, args := in.prepareCall(fr, &instr.Call)
		fr.defers = &deferred{fn: fn, args: args, instr: instr, tail: fr.defers}

	case *ssa.Go:
		fn, args := in.prepareCall(fr, &instr.Call)
		in.goStmt(fr, instr, fn, args)

	case *ssa.MakeChan:
		n, ok := concInt(fr.get(instr.Size))
		if !ok {
			in.abort("unsupported: symbolic channel size")
		}
		fr.set(instr, in.makeChan(int(n)))

	case *ssa.Alloc:
		var addr *Value
		if instr.Heap {
			addr = new(Value)
			fr.set(instr, addr)
		} else {
			addr, _ = fr.get(instr).(*Value)
			if addr == nil { // e.g. executing a slice of an init function
				addr = new(Value)
				fr.set(instr, addr)
			}
		}
		*addr = zero(instr.Type().(*types.Pointer).Elem())

	case *ssa.MakeSlice:
		c := in.concretize(asTerm(fr.get(instr.Cap)))
		l := in.concretize(asTerm(fr.get(instr.Len)))
		if int64(l) < 0 || int64(c) < 0 || l > c || c > 1<<24 {
			in.rtPanic("makeslice: len out of range")
		}
		s := make(Slice, c)
		tElt := underlying(instr.Type()).(*types.Slice).Elem()
		for i := range s {
			s[i] = zero(tElt)
		}
		fr.set(instr, s[:l])

	case *ssa.MakeMap:
		fr.set(instr, newMap(underlying(instr.Type()).(*types.Map)))

	case *ssa.Range:
		fr.set(instr, in.rangeIter(fr.get(instr.X), instr.X.Type()))

	case *ssa.Next:
		fr.set(instr, fr.get(instr.Iter).(iter).next(in))

	case *ssa.FieldAddr:
		p := fr.get(instr.X).(*Value)
		if p == nil {
			in.rtPanic("invalid memory address or nil pointer dereference")
		}
		fr.set(instr, &(*p).(Struct)[instr.Field])

	case *ssa.Field:
		fr.set(instr, fr.get(instr.X).(Struct)[instr.Field])

	case *ssa.IndexAddr:
		x := fr.get(instr.X)
		switch x := x.(type) {
		case Slice:
			i := in.index(fr.get(instr.Index), len(x))
			fr.set(instr, &x[i])
		case *Value:
			if x == nil {
				in.rtPanic("invalid memory address or nil pointer dereference")
			}
			a := (*x).(Array)
			i := in.index(fr.get(instr.Index), len(a))
			fr.set(instr, &a[i])
		default:
			panic(fmt.Sprintf("unexpected x type in IndexAddr: %T", x))
		}

	case *ssa.Index:
		x := fr.get(instr.X)
		switch x := x.(type) {
		case Array:
			fr.set(instr, in.indexRead(x, fr.get(instr.Index)))
		case string:
			i := in.index(fr.get(instr.Index), len(x))
			fr.set(instr, mkByte(x[i]))
		case *SymStr:
			in.abort("unsupported: index into symbolic string")
		default:
			panic(fmt.Sprintf("unexpected x type in Index: %T", x))
		}

	case *ssa.Lookup:
		fr.set(instr, in.lookup(instr, fr.get(instr.X), fr.get(instr.Index)))

	case *ssa.MapUpdate:
		m := fr.get(instr.Map).(*Map)
		if m == nil {
			panic(targetPanic{Iface{t: types.Typ[types.String], v: "assignment to entry in nil map"}})
		}
		in.mapInsert(m, fr.get(instr.Key), copyVal(fr.get(instr.Value)))

	case *ssa.TypeAssert:
		fr.set(instr, in.typeAssert(instr, fr.get(instr.X).(Iface)))

	case *ssa.MakeClosure:
		bindings := make([]Value, len(instr.Bindings))
		for i, b := range instr.Bindings {
			bindings[i] = fr.get(b)
		}
		fr.set(instr, &Closure{instr.Fn.(*ssa.Function), bindings})

	case *ssa.Phi:
		panic("unreachable: phi")

	case *ssa.Select:
		fr.set(instr, in.selectOp(fr, instr))

	default:
		in.abort("unsupported instruction: %T", instr)
	}
	return kNext
}

// index decides bounds and returns a concrete index.
func (in *Interp) index(iv Value, n int) int {
	t := asTerm(iv)
	if t.op == OConst {
		i := t.sval()
		if i < 0 || i >= int64(n) {
			in.rtPanic(fmt.Sprintf("index out of range [%d] with length %d", i, n))
		}
		return int(i)
	}
	inb := Cmp(OUlt, t, BV(t.sort, uint64(n)))
	if !in.decide(inb) {
		in.rtPanic(fmt.Sprintf("index out of range [sym] with length %d", n))
	}
	return int(in.concretize(t))
}

// indexRead reads elems[i] for a possibly symbolic index (ite chain over scalars).
func (in *Interp) indexRead(elems []Value, iv Value) Value {
	t := asTerm(iv)
	if t.op == OConst {
		return copyVal(elems[in.index(iv, len(elems))])
	}
	allScalar := true
	for _, e := range elems {
		if _, ok := e.(*Term); !ok {
			allScalar = false
			break
		}
	}
	if !allScalar || len(elems) > 64 {
		return copyVal(elems[in.index(iv, len(elems))])
	}
	inb := Cmp(OUlt, t, BV(t.sort, uint64(len(elems))))
	if !in.decide(inb) {
		in.rtPanic(fmt.Sprintf("index out of range [sym] with length %d", len(elems)))
	}
	r := elems[len(elems)-1].(*Term)
	for i := len(elems) - 2; i >= 0; i-- {
		r = Ite(Eq(t, BV(t.sort, uint64(i))), elems[i].(*Term), r)
	}
	return r
}

func (in *Interp) sliceOp(fr *frame, instr *ssa.Slice) Value {
	x := fr.get(instr.X)
	var n, c int
	switch x := x.(type) {
	case string:
		n, c = len(x), len(x)
	case *SymStr:
		in.abort("unsupported: slicing a symbolic string")
	case Slice:
		n, c = len(x), cap(x)
	case *Value:
		if x == nil {
			in.rtPanic("invalid memory address or nil pointer dereference")
		}
		a := (*x).(Array)
		n, c = len(a), len(a)
	default:
		panic(fmt.Sprintf("slice: unexpected X type: %T", x))
	}
	lo, hi, max := 0, n, c
	bound := func(v ssa.Value, def int) int {
		if v == nil {
			return def
		}
		t := asTerm(fr.get(v))
		if t.op == OConst {
			return int(t.sval())
		}
		// decide range first so the panic path is a real path
		if !in.decide(Cmp(OUle, t, BV(t.sort, uint64(c)))) {
			in.rtPanic("slice bounds out of range [sym]")
		}
		return int(in.concretize(t))
	}
	lo = bound(instr.Low, 0)
	hi = bound(instr.High, n)
	if _, isStr := x.(string); isStr {
		if lo < 0 || hi < lo || hi > n {
			in.rtPanic(fmt.Sprintf("slice bounds out of range [%d:%d] with length %d", lo, hi, n))
		}
		return x.(string)[lo:hi]
	}
	max = bound(instr.Max, c)
	if lo < 0 || hi < lo || max < hi || max > c {
		in.rtPanic(fmt.Sprintf("slice bounds out of range [%d:%d:%d] with capacity %d", lo, hi, max, c))
	}
	switch x := x.(type) {
	case Slice:
		if x == nil {
			return Slice(nil)
		}
		return x[lo:hi:max]
	case *Value:
		a := (*x).(Array)
		return Slice(a[lo:hi:max])
	}
	panic("unreachable")
}

func (in *Interp) prepareCall(fr *frame, call *ssa.CallCommon) (fn Value, args []Value) {
	v := fr.get(call.Value)
	if call.Method == nil {
		fn = v
	} else {
		recv := v.(Iface)
		if recv.t == nil {
			in.rtPanic("invalid memory address or nil pointer dereference (method call on nil interface)")
		}
		if _, isOpaque := recv.v.(Opaque); isOpaque {
			res := call.Method.Type().(*types.Signature).Results()
			fn = &Native{name: "blackhole-method", fn: func(in *Interp, args []Value) Value { return opaqueResults(res) }}
			for _, arg := range call.Args {
				args = append(args, fr.get(arg))
			}
			return
		}
		f := in.lookupMethod(recv.t, call.Method)
		if f == nil {
			panic(fmt.Sprintf("method set for dynamic type %v does not contain %s", recv.t, call.Method))
		}
		fn = f
		args = append(args, recv.v)
	}
	for _, arg := range call.Args {
		args = append(args, fr.get(arg))
	}
	return
}

func (in *Interp) call(caller *frame, pos token.Pos, fn Value, args []Value) Value {
	switch fn := fn.(type) {
	case *ssa.Function:
		if fn == nil {
			in.rtPanic("call of nil function")
		}
		return in.callSSA(caller, pos, fn, args, nil)
	case *Closure:
		if fn == nil {
			in.rtPanic("call of nil function")
		}
		return in.callSSA(caller, pos, fn.Fn, args, fn.Env)
	case *ssa.Builtin:
		return in.callBuiltin(caller, pos, fn, args)
	case *Native:
		return fn.fn(in, args)
	}
	panic(fmt.Sprintf("cannot call %T", fn))
}

func (in *Interp) callSSA(caller *frame, pos token.Pos, fn *ssa.Function, args []Value, env []Value) Value {
	fi := in.eng.info(fn)
	fr := &frame{in: in, caller: caller, fn: fn, fi: fi}
	if fi.intrinsic != nil {
		in.stubs[fi.name]++
		return fi.intrinsic(in, fr, args)
	}
	if fn.Blocks == nil {
		in.abort("unsupported: no code for function %s", fi.name)
	}
	if fn.TypeParams().Len() > 0 && len(fn.TypeArgs()) == 0 {
		in.abort("unsupported: uninstantiated generic %s", fi.name)
	}
	if fi.pure && in.path.merge == nil && in.eng.mergeEnabled {
		if v, ok := in.mergeCall(caller, pos, fn, args, env); ok {
			return v
		}
	}
	in.depth++
	if in.depth > 400 {
		in.abort("unwinding: call depth exceeded at %s", fi.name)
	}
	if in.eng.trace {
		fmt.Fprintf(os.Stderr, "%s-> %s\n", strings.Repeat(" ", in.depth), fi.name)
	}
	in.fnCount[fi.name]++
	fr.regs = make([]Value, fi.nregs)
	fr.block = fn.Blocks[0]
	if len(fn.Locals) > 0 {
		fr.locals = make([]Value, len(fn.Locals))
		for i, l := range fn.Locals {
			fr.locals[i] = zero(l.Type().(*types.Pointer).Elem())
			fr.set(l, &fr.locals[i])
		}
	}
	for i := range fn.Params {
		fr.regs[i] = args[i]
	}
	np := len(fn.Params)
	for i := range fn.FreeVars {
		fr.regs[np+i] = env[i]
	}
	for fr.block != nil {
		in.runFrame(fr)
	}
	in.depth--
	return fr.result
}

func (in *Interp) runFrame(fr *frame) {
	defer func() {
		if fr.block == nil {
			return // normal return
		}
		p := recover()
		if isEnginePanic(p) {
			panic(p)
		}
		if _, ok := p.(targetPanic); !ok {
			where := fr.fi.name
			if fr.cur != nil {
				where += " @ " + fr.fn.Prog.Fset.Position(fr.cur.Pos()).String() + " : " + fr.cur.String()
			}
			for c, n := fr.caller, 0; c != nil && n < 10; c, n = c.caller, n+1 {
				where += " <- " + c.fi.name
			}
			panic(engineCrash{msg: fmt.Sprint(p), stack: string(debug.Stack()), where: where})
		}
		fr.panicking = true
		fr.panic = p
		fr.runDefers()
		fr.block = fr.fn.Recover
		if fr.block == nil {
			// recovered in a function without named results: return zero values
			fr.result = zero(fr.fn.Signature.Results())
			if fr.fn.Signature.Results().Len() == 0 {
				fr.result = nil
			}
		}
	}()
	for {
		nonPhis := in.executePhis(fr)
		for _, instr := range nonPhis {
			fr.cur = instr
			if in.visitInstr(fr, instr) == kReturn {
				return
			}
		}
	}
}

func (in *Interp) executePhis(fr *frame) []ssa.Instruction {
	firstNonPhi := -1
	for i, instr := range fr.block.Instrs {
		if _, ok := instr.(*ssa.Phi); !ok {
			firstNonPhi = i
			break
		}
	}
	nonPhis := fr.block.Instrs[firstNonPhi:]
	if firstNonPhi > 0 {
		phis := fr.block.Instrs[:firstNonPhi]
		predIndex := slices.Index(fr.block.Preds, fr.prevBlock)
		fr.phitemps = fr.phitemps[:0]
		for _, phi := range phis {
			phi := phi.(*ssa.Phi)
			fr.phitemps = append(fr.phitemps, fr.get(phi.Edges[predIndex]))
		}
		for i, phi := range phis {
			fr.set(phi.(*ssa.Phi), fr.phitemps[i])
		}
	}
	return nonPhis
}

func (in *Interp) doRecover(caller *frame) Value {
	if caller != nil && !caller.panicking && caller.caller != nil && caller.caller.panicking {
		caller.caller.panicking = false
		p := caller.caller.panic
		caller.caller.panic = nil
		switch p := p.(type) {
		case targetPanic:
			if i, ok := p.v.(Iface); ok {
				return i
			}
			return Iface{t: types.Typ[types.String], v: "panic"}
		default:
			panic(fmt.Sprintf("unexpected panic type %T in target call to recover()", p))
		}
	}
	return Iface{}
}

// ---- type assertions

func (in *Interp) typeAssert(instr *ssa.TypeAssert, itf Iface) Value {
	var v Value
	err := ""
	if itf.t == nil {
		err = fmt.Sprintf("interface conversion: interface is nil, not %s", instr.AssertedType)
	} else if idst, ok := underlying(instr.AssertedType).(*types.Interface); ok {
		v = itf
		if meth, _ := types.MissingMethod(itf.t, idst, true); meth != nil {
			err = fmt.Sprintf("interface conversion: %v is not %v: missing method %s", itf.t, idst, meth.Name())
		}
	} else if types.Identical(itf.t, instr.AssertedType) {
		v = itf.v
	} else {
		err = fmt.Sprintf("interface conversion: interface is %s, not %s", itf.t, instr.AssertedType)
	}
	if err != "" {
		if !instr.CommaOk {
			panic(targetPanic{Iface{t: types.Typ[types.String], v: err}})
		}
		return Tuple{zero(instr.AssertedType), tFalse}
	}
	if instr.CommaOk {
		return Tuple{v, tTrue}
	}
	return v
}

// ---- globals

func (in *Interp) globalAddr(g *ssa.Global) *Value {
	if p, ok := in.globals[g]; ok {
		return p
	}
	cell := zero(g.Type().(*types.Pointer).Elem())
	p := &cell
	in.globals[g] = p
	in.initGlobal(g, p)
	return p
}

// whereAmI names the interpreted function on top of the stack and its caller (diagnostics).
func (in *Interp) whereAmI() string {
	fr := in.curFrame
	if fr == nil {
		return "?"
	}
	s := fr.fn.String()
	if fr.caller != nil {
		s += " <- " + fr.caller.fn.String()
		if fr.caller.caller != nil {
			s += " <- " + fr.caller.caller.fn.String()
		}
	}
	return s
}
