package main

import (
	"net"
	"strconv"
	"fmt"
	"os"
	"runtime/debug"
	"sort"
	"strings"
	"sync"
	"sync/atomic"
	"time"

	"golang.org/x/tools/go/ssa"
)

// Dec is one recorded decision of a path.
type Dec struct {
	Taken bool
	Val   uint64
	IsVal bool
}

type WorkItem struct {
	c      *Case
	prefix []Dec
	pc     []*Term
	vars   []*Term
	model  *Model // non-nil: a model of pc is already known (sibling on a fresh variable), no feasibility query needed
}

type nondetRec struct {
	Kind string
	Name string
	v    *Term
}

type Path struct {
	item     *WorkItem
	pos      int
	decs     []Dec
	pc       []*Term
	vars     []*Term
	nondets  []nondetRec
	model    *Model
	ninstr   int
	mapOrder int
	reach    map[string]bool
	merge    *mergeCtx
	bits     map[string]bool
	nassert  int
	nsymAssert int
	finding  string
	notes    []string
	known    map[uint64][]knownCond
	ordTerms []*Term
	hashTerms []*Term
	used     varBits // variables occurring in the path condition
	less     []lessFact
	observes []observed
}

type observed struct {
	label string
	v     Value
}

// Case is one harness invocation: function + concrete arguments.
type Case struct {
	Pkg  string
	Fn   string
	Args []int64
	fn   *ssa.Function

	mu        sync.Mutex
	Stats     CaseStats
	Violations []*Violation
	Inconcl   map[string]int
	Reach     map[string]int
	Samples   []Sample
	FnCount   map[string]int
	Sites     map[string]int
	Stubs     map[string]int
}

type CaseStats struct {
	Started, Completed, Pruned, Infeasible, Inconclusive, Violating int
	Decisions, Instr, Queries                                       int
	Asserts, SymAsserts                                             int
	Nontrivial                                                      int
	SolverTime                                                      time.Duration
}

type Sample struct {
	Case     string            `json:"case"`
	Decisions int              `json:"decisions"`
	Inputs   []NondetVal       `json:"inputs"`
	Outcome  string            `json:"outcome"`
	Reach    []string          `json:"reach,omitempty"`
	Observe  map[string]string `json:"observe,omitempty"`
}

type NondetVal struct {
	Kind string `json:"k"`
	Name string `json:"n"`
	Val  uint64 `json:"v"`
	Free bool   `json:"f,omitempty"` // occurs in the path condition only below uninterpreted functions (hash/string inputs)
}

type Violation struct {
	Case    *Case
	Msg     string
	Finding string
	Inputs  []NondetVal
	Decs    []Dec
	Notes   []string
	Stack   string
}

type Engine struct {
	prog         *ssa.Program
	maxInstr     int
	maxDecisions int
	trace        bool
	mergeEnabled bool
	pureFns      map[string]bool
	solverBin    []string
	nworkers     int
	stopOnViolation bool
	known        map[string]bool // known-finding ids (suppressed regions)

	mu       sync.Mutex
	cond     *sync.Cond
	queue    []*WorkItem
	inflight int
	stop     bool
	itemsRun int
	maxItems int
	overflow bool
	qlog     bool
}

var siteDebug = os.Getenv("GOSX_SITES") != ""

type Worker struct {
	id     int
	eng    *Engine
	solver *Solver
}

func (e *Engine) push(it *WorkItem) {
	e.mu.Lock()
	e.queue = append(e.queue, it)
	e.inflight++
	e.mu.Unlock()
	e.cond.Signal()
}

func (e *Engine) pop() *WorkItem {
	e.mu.Lock()
	defer e.mu.Unlock()
	for len(e.queue) == 0 && e.inflight > 0 && !e.stop {
		e.cond.Wait()
	}
	if e.stop || len(e.queue) == 0 {
		return nil
	}
	it := e.queue[len(e.queue)-1]
	e.queue = e.queue[:len(e.queue)-1]
	e.itemsRun++
	if e.maxItems > 0 && e.itemsRun > e.maxItems {
		e.overflow = true
		e.stop = true
		e.cond.Broadcast()
		return nil
	}
	return it
}

func (e *Engine) done() {
	e.mu.Lock()
	e.inflight--
	if e.inflight == 0 {
		e.cond.Broadcast()
	}
	e.mu.Unlock()
}

// Run explores all cases to completion.
func (e *Engine) Run(cases []*Case) {
	e.cond = sync.NewCond(&e.mu)
	for _, c := range cases {
		c.Inconcl = map[string]int{}
		c.Reach = map[string]int{}
		c.FnCount = map[string]int{}
		c.Stubs = map[string]int{}
		c.Sites = map[string]int{}
		e.push(&WorkItem{c: c})
	}
	if os.Getenv("GOSX_PROGRESS") != "" {
		go func() {
			for {
				time.Sleep(15 * time.Second)
				e.mu.Lock()
				q, inf := len(e.queue), e.inflight
				e.mu.Unlock()
				var sb strings.Builder
				for _, c := range cases {
					c.mu.Lock()
					if c.Stats.Started > 0 {
						fmt.Fprintf(&sb, " %s:%d/%d/%d", c.String(), c.Stats.Completed, c.Stats.Infeasible, c.Stats.Inconclusive)
					}
					c.mu.Unlock()
				}
				fmt.Fprintf(os.Stderr, "PROGRESS queue=%d inflight=%d%s\n", q, inf, sb.String())
			}
		}()
	}
	var wg sync.WaitGroup
	for i := 0; i < e.nworkers; i++ {
		wg.Add(1)
		go func(id int) {
			defer wg.Done()
			var log *os.File
			if e.qlog {
				log, _ = os.Create(fmt.Sprintf("/tmp/gosx_q%d.smt2", id))
			}
			w := &Worker{id: id, eng: e}
			if log != nil {
				w.solver = NewSolver(e.solverBin, log)
			} else {
				w.solver = NewSolver(e.solverBin, nil)
			}
			defer w.solver.Close()
			for {
				it := e.pop()
				if it == nil {
					return
				}
				w.runItem(it)
				e.done()
			}
		}(i)
	}
	wg.Wait()
}

var tAlign, tCheck, tModel, tRun int64

func (w *Worker) runItem(it *WorkItem) {
	c := it.c
	s := w.solver
	ta := time.Now()
	defer func() {
		if os.Getenv("GOSX_TIMING") != "" && c.Stats.Started%200 == 1 {
			fmt.Fprintf(os.Stderr, "TIMING align=%dms check=%dms model=%dms run=%dms\n", tAlign/1e6, tCheck/1e6, tModel/1e6, tRun/1e6)
		}
	}()
	q0, t0 := s.Queries, s.Time
	s.NewItem(it.pc)
	s.in.Flush()
	atomic.AddInt64(&tAlign, int64(time.Since(ta)))
	model := NewModel(nil)
	if it.model != nil {
		model = it.model
	} else if len(it.pc) > 0 {
		tb := time.Now()
		r0 := s.Check()
		atomic.AddInt64(&tCheck, int64(time.Since(tb)))
		switch r0 {
		case Unsat:
			c.mu.Lock()
			c.Stats.Infeasible++
			c.Stats.Queries += s.Queries - q0
			c.Stats.SolverTime += s.Time - t0
			c.mu.Unlock()
			return
		case Unknown:
			c.mu.Lock()
			c.Stats.Inconclusive++
			c.Inconcl["solver unknown on path feasibility"]++
			c.Stats.Queries += s.Queries - q0
			c.Stats.SolverTime += s.Time - t0
			c.mu.Unlock()
			return
		}
		tc := time.Now()
		m, ok := fetchModel(s, it.vars, it.pc)
		atomic.AddInt64(&tModel, int64(time.Since(tc)))
		if !ok {
			c.mu.Lock()
			c.Stats.Inconclusive++
			c.Inconcl["solver model unavailable"]++
			c.mu.Unlock()
			return
		}
		model = m
	}
	in := &Interp{eng: w.eng, w: w, prog: w.eng.prog, globals: map[*ssa.Global]*Value{}, ginit: map[*ssa.Global]bool{},
		stubs: map[string]int{}, fnCount: map[string]int{}, sites: map[string]int{}}
	p := &Path{item: it, model: model, reach: map[string]bool{}, bits: map[string]bool{}}
	in.path = p
	outcome := "completed"
	var reason string
	td := time.Now()
	defer func() { atomic.AddInt64(&tRun, int64(time.Since(td))) }()
	func() {
		defer func() {
			r := recover()
			if r == nil {
				return
			}
			switch r := r.(type) {
			case endPath:
			case prunePath:
				outcome = "pruned"
			case violationPath:
				outcome = "violation"
			case abortPath:
				outcome = "inconclusive"
				reason = r.reason
			case deadlockPanic:
				in.recordViolation(r.msg)
				outcome = "violation"
			case killGoroutine:
				outcome = "inconclusive"
				reason = "engine: stray goroutine kill"
			case engineCrash:
				outcome = "inconclusive"
				reason = "engine crash: " + r.msg + " in " + r.where
				if os.Getenv("GOSX_DEBUG") != "" {
					fmt.Fprintf(os.Stderr, "ENGINE CRASH: %s\n  at %s\n%s\n", r.msg, r.where, r.stack)
				}
			case targetPanic:
				// uncaught Go panic in the interpreted program: violation candidate
				msg := "panic: " + valString(r.v)
				in.recordViolation(msg)
				outcome = "violation"
			default:
				outcome = "inconclusive"
				reason = fmt.Sprintf("engine crash: %v", r)
				if w.eng.trace || os.Getenv("GOSX_DEBUG") != "" {
					fmt.Fprintf(os.Stderr, "ENGINE CRASH: %v\n%s\n", r, debug.Stack())
				}
			}
		}()
		in.runHarness(c)
	}()
	if in.sched != nil {
		in.sched.shutdown()
	}
	c.mu.Lock()
	defer c.mu.Unlock()
	st := &c.Stats
	st.Started++
	st.Decisions += len(p.decs)
	st.Instr += p.ninstr
	st.Queries += s.Queries - q0
	st.SolverTime += s.Time - t0
	st.Asserts += p.nassert
	st.SymAsserts += p.nsymAssert
	switch outcome {
	case "completed":
		st.Completed++
		if p.nsymAssert > 0 {
			st.Nontrivial++
		}
	case "pruned":
		st.Pruned++
	case "violation":
		st.Violating++
	case "inconclusive":
		st.Inconclusive++
		// normalise reason
		if len(reason) > 300 {
			reason = reason[:300]
		}
		c.Inconcl[reason]++
	}
	if outcome == "completed" || outcome == "violation" {
		for l := range p.reach {
			c.Reach[l]++
		}
	}
	for k, v := range in.fnCount {
		c.FnCount[k] += v
	}
	for k, v := range in.stubs {
		c.Stubs[k] += v
	}
	if siteDebug {
		for k, v := range in.sites {
			c.Sites[k] += v
		}
	}
	if siteDebug && c.Stats.Started%500 == 7 {
		fmt.Fprintf(os.Stderr, "PATH %s outcome=%s decs=%d\n", c.String(), outcome, len(p.decs))
		for _, n := range p.notes {
			if len(n) > 200 {
				n = n[:200]
			}
			fmt.Fprintf(os.Stderr, "    %s\n", n)
		}
	}
	if len(c.Samples) < 3 && (outcome == "completed") && len(p.nondets) > 0 {
		var rl []string
		for l := range p.reach {
			rl = append(rl, l)
		}
		sort.Strings(rl)
		c.Samples = append(c.Samples, Sample{Case: c.String(), Decisions: len(p.decs), Inputs: in.inputs(), Outcome: outcome, Reach: rl, Observe: in.observations()})
	}
}

func (c *Case) String() string {
	var as []string
	for _, a := range c.Args {
		as = append(as, fmt.Sprint(a))
	}
	short := c.Pkg
	if i := strings.LastIndex(short, "/"); i >= 0 {
		short = short[i+1:]
	}
	return short + "." + c.Fn + "(" + strings.Join(as, ",") + ")"
}

func (in *Interp) runHarness(c *Case) {
	args := make([]Value, len(c.Args))
	for i, a := range c.Args {
		args[i] = mkInt(a)
	}
	in.call(nil, 0, c.fn, args)
	if in.sched != nil {
		in.sched.finishMain(in)
	}
}

// inputs evaluates all nondet values under the current model.
func (in *Interp) inputs() []NondetVal {
	p := in.path
	out := make([]NondetVal, len(p.nondets))
	for i, n := range p.nondets {
		v, _ := p.model.Eval(n.v)
		out[i] = NondetVal{Kind: n.Kind, Name: n.Name, Val: v}
	}
	return out
}

// constrainedVars collects the variables that occur in t outside uninterpreted applications.
func constrainedVars(t *Term, seen map[*Term]bool, out map[string]bool) {
	if seen[t] {
		return
	}
	seen[t] = true
	switch t.op {
	case OVar:
		out[t.name] = true
		return
	case OApp:
		if t.name == "H64" || t.name == "G192" || t.name == "IPStr" || t.name == "cat" || t.name == "slt" {
			return
		}
	}
	for _, a := range t.args {
		constrainedVars(a, seen, out)
	}
}

func (in *Interp) recordViolation(msg string) {
	p := in.path
	inputs := in.inputs()
	cons := map[string]bool{}
	seen := map[*Term]bool{}
	for _, c := range p.pc {
		constrainedVars(c, seen, cons)
	}
	for i := range inputs {
		if !cons[inputs[i].Name] && (inputs[i].Kind == "Byte" || inputs[i].Kind == "Uint16" || inputs[i].Kind == "Uint32") {
			inputs[i].Free = true
		}
	}
	v := &Violation{Case: p.item.c, Msg: msg, Finding: p.finding, Inputs: inputs, Decs: append([]Dec(nil), p.decs...), Notes: p.notes}
	c := p.item.c
	c.mu.Lock()
	if len(c.Violations) < 50 {
		c.Violations = append(c.Violations, v)
	}
	c.mu.Unlock()
}

// ---- nondeterminism

func (in *Interp) nondet(kind string, s Sort) *Term {
	p := in.path
	if p.merge != nil {
		panic(mergeAbort{"nondet inside merged call"})
	}
	name := fmt.Sprintf("n%d_%d", len(p.nondets), int(s))
	v := Var(name, s)
	p.nondets = append(p.nondets, nondetRec{Kind: kind, Name: name, v: v})
	p.vars = append(p.vars, v)
	return v
}

// refreshModel must be called right after a Sat answer (inside the same solver frame).
func (in *Interp) refreshModel() {
	m, ok := fetchModel(in.w.solver, in.path.vars, in.path.pc)
	if !ok {
		in.abort("solver model unavailable")
	}
	in.path.model = m
}

// collectApps gathers the scalar-valued uninterpreted applications occurring in the terms.
func collectApps(ts []*Term) []*Term {
	seen := map[*Term]bool{}
	seenH := map[uint64]bool{}
	var out []*Term
	var walk func(t *Term)
	walk = func(t *Term) {
		if seen[t] {
			return
		}
		seen[t] = true
		if t.op == OApp && t.sort != SStr && t.sort <= 64 && len(t.args) > 0 {
			if !seenH[t.Hash()] {
				seenH[t.Hash()] = true
				out = append(out, t)
			}
		}
		for _, a := range t.args {
			walk(a)
		}
	}
	for _, t := range ts {
		walk(t)
	}
	return out
}

func fetchModel(s *Solver, vars []*Term, pc []*Term) (*Model, bool) {
	vals, ok := s.Model(vars)
	if !ok {
		return nil, false
	}
	m := NewModel(vals)
	tq := time.Now()
	apps := collectApps(pc)
	atomic.AddInt64(&tAlign, int64(time.Since(tq)))
	if len(apps) > 0 {
		av, oks, ok := s.Values(apps)
		if !ok {
			return nil, false
		}
		m.apps = map[uint64][]appVal{}
		for i, a := range apps {
			if oks[i] {
				m.apps[a.Hash()] = append(m.apps[a.Hash()], appVal{a, av[i]})
			}
		}
	}
	return m, true
}

func (in *Interp) addPC(c *Term) {
	p := in.path
	p.pc = append(p.pc, c)
	p.used.or(c.VarBits())
	p.learn(c, true)
}

type knownCond struct {
	t   *Term
	val bool
}

// learn records facts implied by asserting c == val (used to skip decisions that are already determined).
func (p *Path) learn(c *Term, val bool) {
	for c.op == ONot {
		c = c.args[0]
		val = !val
	}
	if c.op == OConst {
		return
	}
	if (c.op == OAnd && val) || (c.op == OOr && !val) {
		p.learn(c.args[0], val)
		p.learn(c.args[1], val)
	}
	if p.known == nil {
		p.known = map[uint64][]knownCond{}
	}
	h := c.Hash()
	p.known[h] = append(p.known[h], knownCond{c, val})
	if (c.op == OUlt || c.op == OSlt || (c.op == OApp && c.name == "slt")) && val {
		p.less = append(p.less, lessFact{c.op, c.args[0], c.args[1]})
	}
}

type lessFact struct {
	op   Op
	a, b *Term
}

// lessPath reports whether a < b follows from the recorded strict-order facts by transitivity.
func (p *Path) lessPath(op Op, a, b *Term, depth int) bool {
	if depth == 0 {
		return false
	}
	for _, f := range p.less {
		if f.op != op || !deepSame(f.a, a) {
			continue
		}
		if deepSame(f.b, b) || p.lessPath(op, f.b, b, depth-1) {
			return true
		}
	}
	return false
}

// implied reports whether the truth value of c already follows syntactically from the path condition.
func (p *Path) implied(c *Term) (bool, bool) {
	pol := true
	for c.op == ONot {
		c = c.args[0]
		pol = !pol
	}
	for _, k := range p.known[c.Hash()] {
		if deepSame(k.t, c) {
			return k.val == pol, true
		}
	}
	// boolean structure
	switch c.op {
	case OAnd, OOr:
		a, aok := p.implied(c.args[0])
		b, bok := p.implied(c.args[1])
		if c.op == OAnd {
			if (aok && !a) || (bok && !b) {
				return !pol, true
			}
			if aok && bok {
				return pol, true
			}
		} else {
			if (aok && a) || (bok && b) {
				return pol, true
			}
			if aok && bok {
				return !pol, true
			}
		}
	case OIte:
		if cv, ok := p.implied(c.args[0]); ok {
			var r bool
			var rok bool
			if cv {
				r, rok = p.implied(c.args[1])
			} else {
				r, rok = p.implied(c.args[2])
			}
			if rok {
				return r == pol, true
			}
		}
	}
	// a little order reasoning: a<b known  =>  not b<a, not a=b
	lookup := func(t *Term) (bool, bool) {
		for _, k := range p.known[t.Hash()] {
			if deepSame(k.t, t) {
				return k.val, true
			}
		}
		return false, false
	}
	if c.op == OApp && c.name == "slt" {
		if p.lessPath(OApp, c.args[0], c.args[1], 6) {
			return pol, true
		}
		if p.lessPath(OApp, c.args[1], c.args[0], 6) {
			return !pol, true
		}
		return false, false
	}
	switch c.op {
	case OUlt, OSlt:
		if p.lessPath(c.op, c.args[0], c.args[1], 5) {
			return pol, true
		}
		if p.lessPath(c.op, c.args[1], c.args[0], 5) {
			return !pol, true
		}
		if v, ok := lookup(&Term{op: c.op, sort: SBool, args: []*Term{c.args[1], c.args[0]}}); ok && v {
			return !pol, true
		}
		if v, ok := lookup(&Term{op: OEq, sort: SBool, args: []*Term{c.args[0], c.args[1]}}); ok && v {
			return !pol, true
		}
		if v, ok := lookup(&Term{op: OEq, sort: SBool, args: []*Term{c.args[1], c.args[0]}}); ok && v {
			return !pol, true
		}
	case OEq:
		if c.args[0].sort > 0 {
			for _, op := range []Op{OUlt, OSlt} {
				if v, ok := lookup(&Term{op: op, sort: SBool, args: []*Term{c.args[0], c.args[1]}}); ok && v {
					return !pol, true
				}
				if v, ok := lookup(&Term{op: op, sort: SBool, args: []*Term{c.args[1], c.args[0]}}); ok && v {
					return !pol, true
				}
			}
		}
	}
	return false, false
}

// decide resolves a boolean condition to a concrete branch, forking if both sides are feasible.
func (in *Interp) decide(c *Term) bool {
	if c.op == OConst {
		return c.val == 1
	}
	p := in.path
	if p.merge != nil {
		return in.mergeDecide(c)
	}
	if v, ok := p.implied(c); ok {
		return v
	}
	if p.pos < len(p.item.prefix) {
		d := p.item.prefix[p.pos]
		p.pos++
		p.decs = append(p.decs, d)
		if d.Taken {
			in.addPC(c)
		} else {
			in.addPC(Not(c))
		}
		return d.Taken
	}
	if len(p.decs) >= in.eng.maxDecisions {
		in.abort("unwinding: decision depth %d exceeded", in.eng.maxDecisions)
	}
	s := in.w.solver
	var taken bool
	v, ok := p.model.Eval(c)
	if ok {
		taken = v == 1
	} else {
		// not evaluable under the cached model (uninterpreted functions): ask the solver
		s.Push()
		s.Assert(c)
		r := s.Check()
		switch r {
		case Sat:
			in.refreshModel()
			s.Pop()
			taken = true
		case Unsat:
			s.Pop()
			// the other side must be feasible; the cached model still satisfies pc, hence pc ∧ ¬c
			p.decs = append(p.decs, Dec{Taken: false})
			p.pos++
			nc := Not(c)
			in.addPC(nc)
			s.AssertFrame(nc)
			return false
		default:
			in.abort("solver unknown at branch")
		}
	}
	// enqueue the sibling (feasibility is checked when it is picked up)
	sib := Not(c)
	if !taken {
		sib = c
	}
	base := c
	for base.op == ONot {
		base = base.args[0]
	}
	if ok && base.op == OVar && base.sort == SBool && !p.used.has(varIndex(base.name)) && !p.used.over {
		// decision on a fresh, unconstrained boolean: the sibling is feasible and its model is known
		m := p.model.clone()
		if taken == (c.op != ONot) {
			m.vals[base.name] = 0
		} else {
			m.vals[base.name] = 1
		}
		in.pushSiblingModel(Dec{Taken: !taken}, sib, m)
	} else {
		in.pushSibling(Dec{Taken: !taken}, sib)
	}
	p.decs = append(p.decs, Dec{Taken: taken})
	p.pos++
	side := c
	if !taken {
		side = Not(c)
	}
	in.addPC(side)
	s.AssertFrame(side)
	return taken
}

func (in *Interp) pushSiblingModel(d Dec, cond *Term, m *Model) {
	in.pushSibling(d, cond)
	// the item just pushed is the last one queued by this call; attach the model
	in.eng.mu.Lock()
	for i := len(in.eng.queue) - 1; i >= 0; i-- {
		it := in.eng.queue[i]
		if len(it.pc) > 0 && it.pc[len(it.pc)-1] == cond {
			it.model = m
			break
		}
	}
	in.eng.mu.Unlock()
}

func (in *Interp) pushSibling(d Dec, cond *Term) {
	p := in.path
	if siteDebug && in.curFrame != nil {
		in.sites[in.curFrame.fi.name]++
		in.path.notes = append(in.path.notes, fmt.Sprintf("%s:%v:%d:%s", in.curFrame.fi.name, d.Taken, d.Val, cond))
	}
	it := &WorkItem{c: p.item.c}
	it.prefix = make([]Dec, len(p.decs)+1)
	copy(it.prefix, p.decs)
	it.prefix[len(p.decs)] = d
	it.pc = make([]*Term, len(p.pc)+1)
	copy(it.pc, p.pc)
	it.pc[len(p.pc)] = cond
	it.vars = append([]*Term(nil), p.vars...)
	in.eng.push(it)
}

// concretize forks over the feasible values of t and returns a concrete one.
func (in *Interp) concretize(t *Term) uint64 {
	if t.op == OConst {
		return t.val
	}
	p := in.path
	if p.merge != nil {
		panic(mergeAbort{"concretize inside merged call"})
	}
	for n := 0; ; n++ {
		if n > 256 {
			in.abort("unwinding: concretisation fan-out exceeded")
		}
		if p.pos < len(p.item.prefix) {
			d := p.item.prefix[p.pos]
			if !d.IsVal {
				in.abort("engine: replay divergence (expected value decision)")
			}
			p.pos++
			p.decs = append(p.decs, d)
			eq := Eq(t, BV(t.sort, d.Val))
			if d.Taken {
				in.addPC(eq)
				return d.Val
			}
			in.addPC(Not(eq))
			continue
		}
		if len(p.decs) >= in.eng.maxDecisions {
			in.abort("unwinding: decision depth %d exceeded", in.eng.maxDecisions)
		}
		s := in.w.solver
		v, ok := p.model.Eval(t)
		if !ok {
			// need a value from the solver
			if s.Check() != Sat {
				in.abort("solver unknown at concretisation")
			}
			in.refreshModel()
			vv, ok2 := s.ValueOf(t)
			if !ok2 {
				in.abort("solver value unavailable at concretisation")
			}
			v = vv
		}
		eq := Eq(t, BV(t.sort, v))
		in.pushSibling(Dec{Taken: false, Val: v, IsVal: true}, Not(eq))
		p.decs = append(p.decs, Dec{Taken: true, Val: v, IsVal: true})
		p.pos++
		in.addPC(eq)
		s.AssertFrame(eq)
		if !ok {
			// model may not satisfy eq for UF-dependent t: re-check
			if s.Check() != Sat {
				in.abort("solver unknown after concretisation")
			}
			in.refreshModel()
		}
		return v
	}
}

// choose returns a nondeterministic value in [0,n) that is pure nondeterminism (scheduler, map order).
func (in *Interp) choose(n int, kind string) int {
	if n <= 1 {
		return 0
	}
	// a chain of decisions on fresh booleans: no solver involvement
	for i := 0; i < n-1; i++ {
		b := in.nondet(kind, SBool)
		if in.decide(b) {
			return i
		}
	}
	return n - 1
}

// pathBit returns a nondeterministic bit that is chosen once per path and label.
func (in *Interp) pathBit(label string) bool {
	p := in.path
	if b, ok := p.bits[label]; ok {
		return b
	}
	v := in.nondet(label, SBool)
	b := in.decide(v)
	p.bits[label] = b
	return b
}

func (in *Interp) assume(c *Term) {
	if c.op == OConst {
		if c.val == 0 {
			panic(prunePath{})
		}
		return
	}
	p := in.path
	if p.merge != nil {
		panic(mergeAbort{"assume inside merged call"})
	}
	s := in.w.solver
	if v, ok := p.model.Eval(c); ok && v == 1 {
		in.addPC(c)
		s.AssertFrame(c)
		return
	}
	s.AssertFrame(c)
	in.addPC(c)
	switch s.Check() {
	case Sat:
		in.refreshModel()
	case Unsat:
		panic(prunePath{})
	default:
		in.abort("solver unknown at assume")
	}
}

func (in *Interp) assert(c *Term, msg string) {
	p := in.path
	if p.merge != nil {
		panic(mergeAbort{"assert inside merged call"})
	}
	p.nassert++
	if c.op == OConst {
		if c.val == 0 {
			in.violation(msg)
		}
		return
	}
	p.nsymAssert++
	s := in.w.solver
	if v, ok := p.model.Eval(c); ok && v == 0 {
		if os.Getenv("GOSX_DEBUG") == "2" {
			fmt.Fprintf(os.Stderr, "ASSERT FAIL (model) %q: %s\n  pc:\n", msg, c)
			for _, q := range p.pc {
				fmt.Fprintf(os.Stderr, "    %s\n", q)
			}
		}
		in.violation(msg)
		return
	}
	s.Push()
	s.Assert(Not(c))
	switch s.Check() {
	case Unsat:
		s.Pop()
	case Sat:
		in.refreshModel()
		s.Pop()
		in.violation(msg)
	default:
		in.abort("solver unknown at assertion %q", msg)
	}
}

func (in *Interp) violation(msg string) {
	in.recordViolation(msg)
	panic(violationPath{})
}

// observations evaluates the texts handed to verifrt.Observe under the path's model; the native
// replay of the sample recomputes them with the real code and compares.
func (in *Interp) observations() map[string]string {
	p := in.path
	if len(p.observes) == 0 {
		return nil
	}
	// Paths that compared symbolic strings through the abstract order (slt) or sorted by abstract
	// digests may realise an order the concrete values do not have; their texts are not comparable.
	if len(p.ordTerms) > 0 || len(p.hashTerms) > 0 {
		return nil
	}
	out := map[string]string{}
	for _, o := range p.observes {
		if s, ok := in.concreteText(o.v); ok {
			out[o.label] = s
		}
	}
	return out
}

func (in *Interp) concreteText(v Value) (string, bool) {
	switch s := v.(type) {
	case string:
		return s, true
	case *SymStr:
		if s.opaque || s.t == nil {
			return "", false
		}
		return in.concreteTerm(s.t)
	}
	return "", false
}

func (in *Interp) concreteTerm(t *Term) (string, bool) {
	m := in.path.model
	if l, ok := litOf(t); ok {
		return l, true
	}
	switch {
	case t.op == OIte:
		c, ok := m.Eval(t.args[0])
		if !ok {
			return "", false
		}
		if c == 1 {
			return in.concreteTerm(t.args[1])
		}
		return in.concreteTerm(t.args[2])
	case t.op == OApp && t.name == "cat":
		a, ok1 := in.concreteTerm(t.args[0])
		b, ok2 := in.concreteTerm(t.args[1])
		return a + b, ok1 && ok2
	case t.op == OApp && t.name == "IPStr":
		ip := make(net.IP, 16)
		for i := 0; i < 16; i++ {
			b, ok := m.Eval(t.args[i])
			if !ok {
				return "", false
			}
			ip[i] = byte(b)
		}
		return ip.String(), true
	case t.op == OApp && t.name == "Dec":
		x, ok := m.Eval(t.args[0])
		if !ok {
			return "", false
		}
		return strconv.FormatInt(int64(x), 10), true
	}
	return "", false
}
