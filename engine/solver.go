package main

import (
	"bufio"
	"fmt"
	"io"
	"os"
	"os/exec"
	"strconv"
	"strings"
	"time"
)

// Solver drives one long-lived SMT solver process (z3 -in by default).
type Solver struct {
	bin     []string
	cmd     *exec.Cmd
	in      *bufio.Writer
	out     *bufio.Reader
	defined map[int64]bool
	vars    map[string]Sort
	funs    map[string]bool
	depth   int
	items   int
	Queries int
	Time    time.Duration
	log     io.Writer
	sb      strings.Builder
}

func NewSolver(bin []string, log io.Writer) *Solver {
	s := &Solver{bin: bin, log: log}
	s.start()
	return s
}

func (s *Solver) start() {
	s.cmd = exec.Command(s.bin[0], s.bin[1:]...)
	stdin, _ := s.cmd.StdinPipe()
	stdout, _ := s.cmd.StdoutPipe()
	s.cmd.Stderr = os.Stderr
	if err := s.cmd.Start(); err != nil {
		panic(err)
	}
	s.in = bufio.NewWriterSize(stdin, 1<<16)
	s.out = bufio.NewReaderSize(stdout, 1<<16)
	s.prelude()
}

func (s *Solver) prelude() {
	s.defined = map[int64]bool{}
	s.vars = map[string]Sort{}
	s.funs = map[string]bool{}
	s.depth = 0
	s.items = 0
	s.send("(set-option :global-declarations true)\n(set-option :timeout 20000)\n(declare-sort S 0)\n")
}

func (s *Solver) Close() {
	if s.cmd != nil {
		s.in.WriteString("(exit)\n")
		s.in.Flush()
		s.cmd.Process.Kill()
		s.cmd.Wait()
		s.cmd = nil
	}
}

func (s *Solver) send(str string) {
	if s.log != nil {
		io.WriteString(s.log, str)
	}
	s.in.WriteString(str)
}

// NewItem resets the assertion stack for a new work item.
func (s *Solver) NewItem() {
	s.items++
	if s.items > 400 {
		// bound solver memory: restart the process
		s.Close()
		s.start()
	}
	if s.depth > 0 {
		s.send(fmt.Sprintf("(pop %d)\n", s.depth))
		s.depth = 0
	}
	s.send("(push 1)\n")
	s.depth = 1
}

func (s *Solver) Push() { s.send("(push 1)\n"); s.depth++ }
func (s *Solver) Pop()  { s.send("(pop 1)\n"); s.depth-- }

// ref returns the SMT-LIB reference for t, emitting definitions as needed.
func (s *Solver) ref(t *Term) string {
	switch t.op {
	case OConst:
		if t.sort == SBool {
			if t.val == 1 {
				return "true"
			}
			return "false"
		}
		return "(_ bv" + strconv.FormatUint(t.val, 10) + " " + strconv.Itoa(int(t.sort)) + ")"
	case OVar:
		if _, ok := s.vars[t.name]; !ok {
			s.vars[t.name] = t.sort
			s.send("(declare-const " + t.name + " " + t.sort.smt() + ")\n")
		}
		return t.name
	}
	name := "t" + strconv.FormatInt(t.id, 10)
	if s.defined[t.id] {
		return name
	}
	args := make([]string, len(t.args))
	for i, a := range t.args {
		args[i] = s.ref(a)
	}
	var body string
	switch t.op {
	case OExtract:
		body = fmt.Sprintf("((_ extract %d %d) %s)", t.hi, t.lo, args[0])
	case OZext:
		body = fmt.Sprintf("((_ zero_extend %d) %s)", t.hi, args[0])
	case OSext:
		body = fmt.Sprintf("((_ sign_extend %d) %s)", t.hi, args[0])
	case OApp:
		if !s.funs[t.name] {
			s.funs[t.name] = true
			var as []string
			for _, a := range t.args {
				as = append(as, a.sort.smt())
			}
			s.send(fmt.Sprintf("(declare-fun %s (%s) %s)\n", smtSym(t.name), strings.Join(as, " "), t.sort.smt()))
		}
		if len(args) == 0 {
			s.defined[t.id] = true
			return smtSym(t.name)
		}
		body = "(" + smtSym(t.name) + " " + strings.Join(args, " ") + ")"
	default:
		body = "(" + opName[t.op] + " " + strings.Join(args, " ") + ")"
	}
	s.send("(define-fun " + name + " () " + t.sort.smt() + " " + body + ")\n")
	s.defined[t.id] = true
	return name
}

func smtSym(n string) string {
	ok := true
	for _, c := range n {
		if !(c >= 'a' && c <= 'z' || c >= 'A' && c <= 'Z' || c >= '0' && c <= '9' || c == '_' || c == '!' || c == '.' || c == '$') {
			ok = false
			break
		}
	}
	if ok {
		return n
	}
	return "|" + strings.NewReplacer("|", "_", "\\", "_").Replace(n) + "|"
}

func (s *Solver) Assert(t *Term) {
	r := s.ref(t)
	s.send("(assert " + r + ")\n")
}

type SatResult int

const (
	Sat SatResult = iota
	Unsat
	Unknown
)

func (r SatResult) String() string { return [...]string{"sat", "unsat", "unknown"}[r] }

func (s *Solver) readLine() string {
	for {
		line, err := s.out.ReadString('\n')
		if err != nil {
			return "(error \"solver died: " + err.Error() + "\")"
		}
		line = strings.TrimSpace(line)
		if line != "" {
			return line
		}
	}
}

func (s *Solver) Check() SatResult {
	t0 := time.Now()
	s.send("(check-sat)\n")
	s.in.Flush()
	line := s.readLine()
	s.Queries++
	s.Time += time.Since(t0)
	switch line {
	case "sat":
		return Sat
	case "unsat":
		return Unsat
	}
	if s.log != nil {
		fmt.Fprintf(s.log, "; solver said: %s\n", line)
	}
	if strings.Contains(line, "error") {
		fmt.Fprintf(os.Stderr, "solver error: %s\n", line)
		// resynchronise: restart
		s.Close()
		s.start()
	}
	return Unknown
}

// CheckWith checks satisfiability of the current stack plus extra, leaving the stack unchanged.
func (s *Solver) CheckWith(extra *Term) SatResult {
	s.Push()
	s.Assert(extra)
	r := s.Check()
	if s.cmd != nil && s.depth > 0 {
		s.Pop()
	}
	return r
}

// Model fetches values for the given variables (after a sat answer).
func (s *Solver) Model(vars []*Term) (map[string]uint64, bool) {
	m := map[string]uint64{}
	if len(vars) == 0 {
		return m, true
	}
	var names []string
	for _, v := range vars {
		if v.sort == SStr {
			continue
		}
		names = append(names, s.ref(v))
	}
	if len(names) == 0 {
		return m, true
	}
	s.send("(get-value (" + strings.Join(names, " ") + "))\n")
	s.in.Flush()
	// read a balanced s-expression
	var sb strings.Builder
	depth := 0
	started := false
	for {
		line := s.readLine()
		if strings.HasPrefix(line, "(error") {
			fmt.Fprintf(os.Stderr, "solver error in get-value: %s\n", line)
			return nil, false
		}
		sb.WriteString(line)
		sb.WriteByte(' ')
		for _, c := range line {
			if c == '(' {
				depth++
				started = true
			} else if c == ')' {
				depth--
			}
		}
		if started && depth <= 0 {
			break
		}
	}
	txt := sb.String()
	// parse pairs (name value)
	toks := tokenize(txt)
	// expected: ( ( name val ) ( name val ) ... )
	i := 0
	next := func() string {
		if i < len(toks) {
			i++
			return toks[i-1]
		}
		return ""
	}
	if next() != "(" {
		return nil, false
	}
	for i < len(toks) {
		tk := next()
		if tk == ")" {
			break
		}
		if tk != "(" {
			return nil, false
		}
		name := next()
		val := next()
		var v uint64
		switch {
		case val == "true":
			v = 1
		case val == "false":
			v = 0
		case strings.HasPrefix(val, "#x"):
			v, _ = strconv.ParseUint(val[2:], 16, 64)
		case strings.HasPrefix(val, "#b"):
			v, _ = strconv.ParseUint(val[2:], 2, 64)
		case val == "(":
			// (_ bvN w)
			next() // _
			bv := next()
			next() // w
			next() // )
			v, _ = strconv.ParseUint(strings.TrimPrefix(bv, "bv"), 10, 64)
		default:
			return nil, false
		}
		if next() != ")" {
			return nil, false
		}
		m[strings.Trim(name, "|")] = v
	}
	return m, true
}

func tokenize(s string) []string {
	var toks []string
	i := 0
	for i < len(s) {
		c := s[i]
		switch {
		case c == ' ' || c == '\t' || c == '\n' || c == '\r':
			i++
		case c == '(' || c == ')':
			toks = append(toks, string(c))
			i++
		case c == '|':
			j := i + 1
			for j < len(s) && s[j] != '|' {
				j++
			}
			toks = append(toks, s[i:j+1])
			i = j + 1
		default:
			j := i
			for j < len(s) && !strings.ContainsRune(" \t\n\r()", rune(s[j])) {
				j++
			}
			toks = append(toks, s[i:j])
			i = j
		}
	}
	return toks
}

// ValueOf returns the value of an arbitrary (≤64-bit or Bool) term in the current model.
func (s *Solver) ValueOf(t *Term) (uint64, bool) {
	r := s.ref(t)
	s.send("(get-value (" + r + "))\n")
	s.in.Flush()
	line := s.readLine()
	depth := strings.Count(line, "(") - strings.Count(line, ")")
	for depth > 0 {
		l2 := s.readLine()
		line += " " + l2
		depth += strings.Count(l2, "(") - strings.Count(l2, ")")
	}
	if strings.HasPrefix(line, "(error") {
		return 0, false
	}
	toks := tokenize(line)
	// ( ( ref val ) )
	if len(toks) < 5 {
		return 0, false
	}
	// value tokens start after the reference, which may itself be parenthesised; take from the end
	end := len(toks) - 2 // skip final ") )"
	val := toks[end-1]
	switch {
	case val == "true":
		return 1, true
	case val == "false":
		return 0, true
	case strings.HasPrefix(val, "#x"):
		v, err := strconv.ParseUint(val[2:], 16, 64)
		return v, err == nil
	case strings.HasPrefix(val, "#b"):
		v, err := strconv.ParseUint(val[2:], 2, 64)
		return v, err == nil
	case val == ")":
		// (_ bvN w)
		if end-4 >= 0 && strings.HasPrefix(toks[end-3], "bv") {
			v, err := strconv.ParseUint(toks[end-3][2:], 10, 64)
			return v, err == nil
		}
	}
	return 0, false
}
