package main

import (
	"bufio"
	"fmt"
	"io"
	"os"
	"os/exec"
	"strconv"
	"strings"
	"time"
)

// Solver drives one long-lived SMT solver process (z3 -in by default).
type Solver struct {
	bin     []string
	cmd     *exec.Cmd
	in      *bufio.Writer
	out     *bufio.Reader
	defined map[int64]bool
	vars    map[string]Sort
	funs    map[string]bool
	depth   int
	items   int
	Queries int
	Time    time.Duration
	log     io.Writer
	sb      strings.Builder
	stack   []*Term // asserted path-condition entries, one solver frame each
	frames  []frameDefs
}

// frameDefs records what was declared/defined inside one solver frame (undone by pop).
type frameDefs struct {
	ids   []int64
	names []string
	funs  []string
}

func NewSolver(bin []string, log io.Writer) *Solver {
	s := &Solver{bin: bin, log: log}
	s.start()
	return s
}

func (s *Solver) start() {
	s.cmd = exec.Command(s.bin[0], s.bin[1:]...)
	stdin, _ := s.cmd.StdinPipe()
	stdout, _ := s.cmd.StdoutPipe()
	s.cmd.Stderr = os.Stderr
	if err := s.cmd.Start(); err != nil {
		panic(err)
	}
	s.in = bufio.NewWriterSize(stdin, 1<<16)
	s.out = bufio.NewReaderSize(stdout, 1<<16)
	s.prelude()
}

func (s *Solver) prelude() {
	s.defined = map[int64]bool{}
	s.vars = map[string]Sort{}
	s.funs = map[string]bool{}
	s.depth = 0
	s.items = 0
	s.stack = nil
	s.frames = []frameDefs{{}}
	if strings.HasPrefix(*flagSolver, "cvc5") {
		s.send("(set-logic ALL)\n(set-option :tlimit-per 20000)\n(declare-sort S 0)\n")
	} else {
		s.send("(set-option :timeout 20000)\n(declare-sort S 0)\n")
	}
}

func (s *Solver) Close() {
	if s.cmd != nil {
		s.in.WriteString("(exit)\n")
		s.in.Flush()
		s.cmd.Process.Kill()
		s.cmd.Wait()
		s.cmd = nil
	}
}

func (s *Solver) send(str string) {
	if s.log != nil {
		io.WriteString(s.log, str)
	}
	s.in.WriteString(str)
}

// NewItem aligns the assertion stack with the path condition pc of a new work item, reusing the
// frames of the common prefix with what is currently asserted (siblings share most of it).
func (s *Solver) NewItem(pc []*Term) {
	s.items++
	if s.items > 2000 {
		// bound solver memory: restart the process
		s.Close()
		s.start()
	}
	// drop temporary frames above the recorded stack
	if s.depth > len(s.stack) {
		s.popN(s.depth - len(s.stack))
	}
	k := 0
	for k < len(pc) && k < len(s.stack) && s.stack[k] == pc[k] {
		k++
	}
	if k < len(s.stack) {
		s.popN(len(s.stack) - k)
		s.stack = s.stack[:k]
	}
	for _, t := range pc[k:] {
		s.AssertFrame(t)
	}
}

// AssertFrame asserts t in a new frame that belongs to the path condition.
func (s *Solver) AssertFrame(t *Term) {
	if s.depth > len(s.stack) {
		s.popN(s.depth - len(s.stack))
	}
	s.Push()
	r := s.ref(t)
	s.send("(assert " + r + ")\n")
	s.stack = append(s.stack, t)
}

func (s *Solver) Push() {
	s.send("(push 1)\n")
	s.depth++
	s.frames = append(s.frames, frameDefs{})
}

func (s *Solver) Pop() { s.popN(1) }

func (s *Solver) popN(n int) {
	if n <= 0 {
		return
	}
	s.send(fmt.Sprintf("(pop %d)\n", n))
	for i := 0; i < n; i++ {
		f := s.frames[len(s.frames)-1]
		s.frames = s.frames[:len(s.frames)-1]
		for _, id := range f.ids {
			delete(s.defined, id)
		}
		for _, nm := range f.names {
			delete(s.vars, nm)
		}
		for _, fn := range f.funs {
			delete(s.funs, fn)
		}
	}
	s.depth -= n
}

// ref returns the SMT-LIB reference for t, emitting definitions as needed.
func (s *Solver) ref(t *Term) string {
	switch t.op {
	case OConst:
		if t.sort == SBool {
			if t.val == 1 {
				return "true"
			}
			return "false"
		}
		return "(_ bv" + strconv.FormatUint(t.val, 10) + " " + strconv.Itoa(int(t.sort)) + ")"
	case OVar:
		if _, ok := s.vars[t.name]; !ok {
			s.vars[t.name] = t.sort
			s.send("(declare-const " + t.name + " " + t.sort.smt() + ")\n")
			f := &s.frames[len(s.frames)-1]
			f.names = append(f.names, t.name)
		}
		return t.name
	}
	name := "t" + strconv.FormatInt(t.id, 10)
	if s.defined[t.id] {
		return name
	}
	args := make([]string, len(t.args))
	for i, a := range t.args {
		args[i] = s.ref(a)
	}
	var body string
	switch t.op {
	case OExtract:
		body = fmt.Sprintf("((_ extract %d %d) %s)", t.hi, t.lo, args[0])
	case OZext:
		body = fmt.Sprintf("((_ zero_extend %d) %s)", t.hi, args[0])
	case OSext:
		body = fmt.Sprintf("((_ sign_extend %d) %s)", t.hi, args[0])
	case OApp:
		if !s.funs[t.name] {
			s.funs[t.name] = true
			ff := &s.frames[len(s.frames)-1]
			ff.funs = append(ff.funs, t.name)
			var as []string
			for _, a := range t.args {
				as = append(as, a.sort.smt())
			}
			s.send(fmt.Sprintf("(declare-fun %s (%s) %s)\n", smtSym(t.name), strings.Join(as, " "), t.sort.smt()))
		}
		if len(args) == 0 {
			return smtSym(t.name)
		}
		body = "(" + smtSym(t.name) + " " + strings.Join(args, " ") + ")"
	default:
		body = "(" + opName[t.op] + " " + strings.Join(args, " ") + ")"
	}
	s.send("(define-fun " + name + " () " + t.sort.smt() + " " + body + ")\n")
	s.defined[t.id] = true
	fd := &s.frames[len(s.frames)-1]
	fd.ids = append(fd.ids, t.id)
	return name
}

func smtSym(n string) string {
	ok := true
	for _, c := range n {
		if !(c >= 'a' && c <= 'z' || c >= 'A' && c <= 'Z' || c >= '0' && c <= '9' || c == '_' || c == '!' || c == '.' || c == '$') {
			ok = false
			break
		}
	}
	if ok {
		return n
	}
	return "|" + strings.NewReplacer("|", "_", "\\", "_").Replace(n) + "|"
}

func (s *Solver) Assert(t *Term) {
	r := s.ref(t)
	s.send("(assert " + r + ")\n")
}

type SatResult int

const (
	Sat SatResult = iota
	Unsat
	Unknown
)

func (r SatResult) String() string { return [...]string{"sat", "unsat", "unknown"}[r] }

func (s *Solver) readLine() string {
	for {
		line, err := s.out.ReadString('\n')
		if err != nil {
			return "(error \"solver died: " + err.Error() + "\")"
		}
		line = strings.TrimSpace(line)
		if line != "" {
			return line
		}
	}
}

func (s *Solver) Check() SatResult {
	t0 := time.Now()
	s.send("(check-sat)\n")
	s.in.Flush()
	line := s.readLine()
	s.Queries++
	s.Time += time.Since(t0)
	switch line {
	case "sat":
		return Sat
	case "unsat":
		return Unsat
	}
	if line == "unknown" || line == "timeout" {
		// the per-query time limit is wall-clock: on a loaded machine a query that normally takes a second
		// can run out of it. One more attempt with a thirty times longer limit before the path is inconclusive.
		long, short := "(set-option :timeout 600000)\n", "(set-option :timeout 20000)\n"
		if strings.HasPrefix(*flagSolver, "cvc5") {
			long, short = "(set-option :tlimit-per 600000)\n", "(set-option :tlimit-per 20000)\n"
		}
		t1 := time.Now()
		s.send(long + "(check-sat)\n")
		s.in.Flush()
		line2 := s.readLine()
		s.send(short)
		s.Queries++
		s.Time += time.Since(t1)
		switch line2 {
		case "sat":
			return Sat
		case "unsat":
			return Unsat
		}
		line = line2
	}
	if s.log != nil {
		fmt.Fprintf(s.log, "; solver said: %s\n", line)
	}
	if strings.Contains(line, "error") {
		fmt.Fprintf(os.Stderr, "solver error: %s\n", line)
		// resynchronise: restart
		s.Close()
		s.start()
	}
	return Unknown
}

// CheckWith checks satisfiability of the current stack plus extra, leaving the stack unchanged.
func (s *Solver) CheckWith(extra *Term) SatResult {
	s.Push()
	s.Assert(extra)
	r := s.Check()
	if s.cmd != nil && s.depth > 0 {
		s.Pop()
	}
	return r
}

// sexp is a parsed s-expression.
type sexp struct {
	atom string
	list []*sexp
}

func parseSexp(toks []string, pos *int) *sexp {
	if *pos >= len(toks) {
		return nil
	}
	t := toks[*pos]
	*pos++
	if t != "(" {
		return &sexp{atom: t}
	}
	n := &sexp{}
	for *pos < len(toks) && toks[*pos] != ")" {
		n.list = append(n.list, parseSexp(toks, pos))
	}
	*pos++
	return n
}

func sexpValue(v *sexp) (uint64, bool) {
	if v == nil {
		return 0, false
	}
	if v.list == nil {
		val := v.atom
		switch {
		case val == "true":
			return 1, true
		case val == "false":
			return 0, true
		case strings.HasPrefix(val, "#x"):
			if len(val) > 18 {
				return 0, false
			}
			x, err := strconv.ParseUint(val[2:], 16, 64)
			return x, err == nil
		case strings.HasPrefix(val, "#b"):
			if len(val) > 66 {
				return 0, false
			}
			x, err := strconv.ParseUint(val[2:], 2, 64)
			return x, err == nil
		}
		return 0, false
	}
	// (_ bvN w)
	if len(v.list) == 3 && v.list[0].atom == "_" && strings.HasPrefix(v.list[1].atom, "bv") {
		x, err := strconv.ParseUint(v.list[1].atom[2:], 10, 64)
		return x, err == nil
	}
	return 0, false
}

// readSexp reads one balanced s-expression from the solver.
func (s *Solver) readSexp() (string, bool) {
	var sb strings.Builder
	depth := 0
	started := false
	for {
		line := s.readLine()
		if strings.HasPrefix(line, "(error") {
			fmt.Fprintf(os.Stderr, "solver error in get-value: %s\n", line)
			return "", false
		}
		sb.WriteString(line)
		sb.WriteByte(' ')
		inBar := false
		for _, c := range line {
			if c == '|' {
				inBar = !inBar
			}
			if inBar {
				continue
			}
			if c == '(' {
				depth++
				started = true
			} else if c == ')' {
				depth--
			}
		}
		if started && depth <= 0 {
			break
		}
		if !started {
			break
		}
	}
	return sb.String(), true
}

// Model fetches values for the given variables and application terms (after a sat answer).
// Values are returned positionally: vals[i] belongs to terms[i]; ok[i] false if not representable.
func (s *Solver) Values(terms []*Term) ([]uint64, []bool, bool) {
	vals := make([]uint64, len(terms))
	oks := make([]bool, len(terms))
	if len(terms) == 0 {
		return vals, oks, true
	}
	names := make([]string, len(terms))
	for i, t := range terms {
		names[i] = s.ref(t)
	}
	t0 := time.Now()
	s.send("(get-value (" + strings.Join(names, " ") + "))\n")
	s.in.Flush()
	txt, ok := s.readSexp()
	s.Time += time.Since(t0)
	if !ok {
		return nil, nil, false
	}
	toks := tokenize(txt)
	pos := 0
	root := parseSexp(toks, &pos)
	if root == nil || len(root.list) != len(terms) {
		return nil, nil, false
	}
	for i, pair := range root.list {
		if len(pair.list) != 2 {
			continue
		}
		vals[i], oks[i] = sexpValue(pair.list[1])
	}
	return vals, oks, true
}

func (s *Solver) Model(vars []*Term) (map[string]uint64, bool) {
	var ts []*Term
	for _, v := range vars {
		if v.sort != SStr && v.sort <= 64 {
			ts = append(ts, v)
		}
	}
	vals, oks, ok := s.Values(ts)
	if !ok {
		return nil, false
	}
	m := map[string]uint64{}
	for i, t := range ts {
		if oks[i] {
			m[t.name] = vals[i]
		}
	}
	return m, true
}

func tokenize(s string) []string {
	var toks []string
	i := 0
	for i < len(s) {
		c := s[i]
		switch {
		case c == ' ' || c == '\t' || c == '\n' || c == '\r':
			i++
		case c == '(' || c == ')':
			toks = append(toks, string(c))
			i++
		case c == '|':
			j := i + 1
			for j < len(s) && s[j] != '|' {
				j++
			}
			toks = append(toks, s[i:j+1])
			i = j + 1
		default:
			j := i
			for j < len(s) && !strings.ContainsRune(" \t\n\r()", rune(s[j])) {
				j++
			}
			toks = append(toks, s[i:j])
			i = j
		}
	}
	return toks
}

// ValueOf returns the value of an arbitrary (≤64-bit or Bool) term in the current model.
func (s *Solver) ValueOf(t *Term) (uint64, bool) {
	vals, oks, ok := s.Values([]*Term{t})
	if !ok || !oks[0] {
		return 0, false
	}
	return vals[0], true
}
