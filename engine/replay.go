package main

import (
	"bytes"
	"encoding/json"
	"fmt"
	"os"
	"os/exec"
	"path/filepath"
	"sort"
	"strings"
	"time"
)

type ReplayRun struct {
	ID     string      `json:"id"`
	Fn     string      `json:"fn"`
	Pkg    string      `json:"pkg"`
	Args   []int64     `json:"args"`
	Nondet []NondetVal `json:"nondet"`
	Expect string      `json:"expect"`
	Msg    string      `json:"msg,omitempty"`
	Notes  []string    `json:"notes,omitempty"`
	Observe map[string]string `json:"observe,omitempty"`
}

type ReplayFile struct {
	Property string      `json:"property"`
	Runs     []ReplayRun `json:"runs"`
}

type KnownFinding struct {
	Property string `json:"property"`
	ID       string `json:"id"`
	Status   string `json:"status"` // "known" (suppresses, prints KNOWN-FINDING) or "fixed" (documentation only)
	What     string `json:"what"`
	Commit   string `json:"commit,omitempty"`
}

var knownFindings []KnownFinding

func loadKnownFindings(prop string) map[string]bool {
	m := map[string]bool{}
	b, err := os.ReadFile(filepath.Join(verifDir, "known_findings.json"))
	if err != nil {
		return m
	}
	var all struct {
		Findings []KnownFinding `json:"findings"`
	}
	if json.Unmarshal(b, &all) != nil {
		return m
	}
	knownFindings = all.Findings
	for _, f := range all.Findings {
		if f.Property == prop && f.Status == "known" {
			m[f.ID] = true
		}
	}
	return m
}

func runCmd(dir string, env []string, name string, args ...string) (string, error) {
	cmd := exec.Command(name, args...)
	cmd.Dir = dir
	if env != nil {
		cmd.Env = env
	}
	var out bytes.Buffer
	cmd.Stdout = &out
	cmd.Stderr = &out
	err := cmd.Run()
	return out.String(), err
}

// nativeReplay runs the given runs (all of one package) against the real build.
// It returns, per run id, one of "CONFIRMED <msg>", "PASSED", "DIVERGED <why>", or "" if no result line was seen.
// replayTimeScale slows the native harness clock (sleeps that stand for "let the others run" / "the
// timer expires"); retries of timing-dependent replays use a larger scale.
var replayTimeScale = 1

// replayRace asks native harnesses to force the less likely order of racing events (vr.RaceRetry).
var replayRace = false

func nativeReplay(prop, pkg string, runs []ReplayRun, file string) (map[string]string, string) {
	rf := ReplayFile{Property: prop, Runs: runs}
	b, _ := json.MarshalIndent(rf, "", " ")
	os.MkdirAll(filepath.Dir(file), 0o755)
	os.WriteFile(file, b, 0o644)

	_, paths := buildOverlay()
	ov := struct{ Replace map[string]string }{paths}
	work := filepath.Join(verifDir, ".work")
	os.MkdirAll(work, 0o755)
	ovFile := filepath.Join(work, fmt.Sprintf("overlay-%s-%d.json", prop, os.Getpid()))
	ob, _ := json.Marshal(ov)
	os.WriteFile(ovFile, ob, 0o644)
	defer os.Remove(ovFile)
	// a stable copy for replaying a counterexample by hand (MANIFEST replay_cmd_template)
	os.WriteFile(filepath.Join(work, "overlay.json"), ob, 0o644)

	env := append(goEnv(), "VERIF_REPLAY="+file, fmt.Sprintf("VERIF_TIMESCALE=%d", replayTimeScale))
	if replayRace {
		env = append(env, "VERIF_RACE_RETRY=1")
	}
	race := false
	for _, r := range runs {
		if strings.HasPrefix(r.Msg, "data race") {
			race = true
		}
	}
	args := []string{"test", "-tags", "verif", "-vet=off", "-count=1", "-timeout", fmt.Sprintf("%ds", 90*replayTimeScale), "-overlay", ovFile, "-run", "^TestVerifReplay$", "-v"}
	if race {
		// lockset reports are confirmed with the Go race detector
		args = append(args, "-race")
		env = append(env, "CGO_ENABLED=1")
	}
	args = append(args, "./"+pkg)
	out, err := runCmd(repoDir, env, "go", args...)
	if race && strings.Contains(out, "WARNING: DATA RACE") {
		for _, r := range runs {
			if strings.HasPrefix(r.Msg, "data race") {
				res0 := "CONFIRMED data race reported by the Go race detector"
				defer func(id string) {}(r.ID)
				_ = res0
			}
		}
	}
	res := map[string]string{}
	for _, line := range strings.Split(out, "\n") {
		line = strings.TrimSpace(line)
		if i := strings.Index(line, "VERIF-RUN "); i >= 0 {
			f := strings.SplitN(line[i+len("VERIF-RUN "):], " ", 2)
			if len(f) == 2 {
				res[f[0]] = f[1]
			}
		}
	}
	_ = err
	if race && strings.Contains(out, "WARNING: DATA RACE") {
		for _, r := range runs {
			if strings.HasPrefix(r.Msg, "data race") {
				res[r.ID] = "CONFIRMED data race reported by the Go race detector"
			}
		}
	}
	// a native run that hangs confirms a reported deadlock
	if strings.Contains(out, "test timed out") || strings.Contains(out, "all goroutines are asleep") {
		for _, r := range runs {
			if _, ok := res[r.ID]; !ok && strings.HasPrefix(r.Msg, "deadlock") {
				res[r.ID] = "CONFIRMED native run deadlocked (go test timed out)"
			}
		}
	}
	return res, out
}

func handleViolations(spec *Spec, ev *Evidence, viols []*Violation) (int, string) {
	cov := &ev.Coverage
	known := loadKnownFindings(spec.Property)
	// known findings
	knownHit := map[string]string{}
	var fresh []*Violation
	for _, v := range viols {
		if v.Finding != "" && known[v.Finding] {
			if _, ok := knownHit[v.Finding]; !ok {
				knownHit[v.Finding] = v.Msg
			}
			continue
		}
		fresh = append(fresh, v)
	}
	var ids []string
	for id := range knownHit {
		ids = append(ids, id)
	}
	sort.Strings(ids)
	for _, id := range ids {
		what := knownHit[id]
		for _, f := range knownFindings {
			if f.ID == id && f.Property == spec.Property {
				what = f.What
			}
		}
		fmt.Printf("KNOWN-FINDING: property=%s %s: %s\n", spec.Property, id, what)
		cov.KnownHit = append(cov.KnownHit, id)
	}
	if len(fresh) == 0 {
		return 0, ""
	}
	// distinct (case fn, message) groups; replay up to 2 of each
	groups := map[string][]*Violation{}
	var order []string
	for _, v := range fresh {
		k := v.Case.Pkg + "|" + v.Case.Fn + "|" + v.Msg + "|" + v.Finding
		if _, ok := groups[k]; !ok {
			order = append(order, k)
		}
		groups[k] = append(groups[k], v)
	}
	sort.Strings(order)
	code := 0
	verdict := ""
	n := 0
	for _, k := range order {
		vs := groups[k]
		cov.ViolationList = append(cov.ViolationList, fmt.Sprintf("%s: %s [finding=%q] x%d", vs[0].Case.String(), vs[0].Msg, vs[0].Finding, len(vs)))
		if *flagNoReplay {
			fmt.Printf("UNREPLAYED property=%s %s: %s inputs=%v\n", spec.Property, vs[0].Case.String(), vs[0].Msg, vs[0].Inputs)
			code = 2
			continue
		}
		confirmed := false
		var lastOut string
		for i, v := range vs {
			if i >= 6 {
				break
			}
			id := fmt.Sprintf("%s-%d", spec.Property, n)
			file := filepath.Join(verifDir, "replays", spec.Property, fmt.Sprintf("%d.json", n))
			n++
			run := ReplayRun{ID: id, Fn: v.Case.Fn, Pkg: v.Case.Pkg, Args: v.Case.Args, Nondet: v.Inputs, Expect: "violation", Msg: v.Msg, Notes: v.Notes}
			res, out := nativeReplay(spec.Property, v.Case.Pkg, []ReplayRun{run}, file)
			lastOut = out
			if !strings.HasPrefix(res[id], "CONFIRMED") && strings.HasPrefix(v.Msg, "data race") {
				// the race detector only reports races that happen in the run: repeat
				for k := 0; k < 4 && !strings.HasPrefix(res[id], "CONFIRMED"); k++ {
					res, out = nativeReplay(spec.Property, v.Case.Pkg, []ReplayRun{run}, file)
					lastOut = out
				}
			}
			if !strings.HasPrefix(res[id], "CONFIRMED") && i == 0 {
				// timing-dependent native runs: one retry with a slower harness clock
				replayTimeScale = 8
				res, out = nativeReplay(spec.Property, v.Case.Pkg, []ReplayRun{run}, file)
				replayTimeScale = 1
				lastOut = out
			}
			if !strings.HasPrefix(res[id], "CONFIRMED") {
				// racing events: natively the scheduler almost always picks one order; ask the harness
				// for the other one
				replayRace = true
				res, out = nativeReplay(spec.Property, v.Case.Pkg, []ReplayRun{run}, file)
				replayRace = false
				lastOut = out
			}
			if strings.HasPrefix(res[id], "CONFIRMED") {
				fmt.Printf("VIOLATION property=%s replay=%s\n", spec.Property, file)
				fmt.Printf("  %s: %s (native: %s)\n", v.Case.String(), v.Msg, res[id])
				ev.Violations++
				confirmed = true
				code = 1
				verdict = "violation confirmed by native replay"
				break
			}
			fmt.Printf("UNCONFIRMED property=%s %s: %s native=%q replay=%s\n", spec.Property, v.Case.String(), v.Msg, res[id], file)
		}
		if !confirmed {
			if code == 0 {
				code = 2
				verdict = "counterexample not reproduced natively (encoding or abstraction too weak)"
			}
			if os.Getenv("GOSX_DEBUG") != "" {
				fmt.Fprintln(os.Stderr, lastOut)
			}
		}
	}
	return code, verdict
}

// validateSamples replays solver models of passing paths natively; they must pass there too.
func validateSamples(spec *Spec, cases []*Case, perCase int) (int, string) {
	byPkg := map[string][]ReplayRun{}
	n := 0
	for _, c := range cases {
		for i, s := range c.Samples {
			if i >= perCase || n >= 48 {
				break
			}
			id := fmt.Sprintf("s%d", n)
			n++
			byPkg[c.Pkg] = append(byPkg[c.Pkg], ReplayRun{ID: id, Fn: c.Fn, Pkg: c.Pkg, Args: c.Args, Nondet: s.Inputs, Expect: "pass", Observe: s.Observe})
		}
	}
	ok := 0
	for pkg, runs := range byPkg {
		file := filepath.Join(verifDir, ".work", fmt.Sprintf("validate-%s-%d.json", spec.Property, time.Now().UnixNano()))
		res, out := nativeReplay(spec.Property, pkg, runs, file)
		os.Remove(file)
		for _, r := range runs {
			switch {
			case res[r.ID] == "PASSED":
				ok++
			case res[r.ID] == "":
				// the test binary did not get to this run (build hiccup, timeout of the whole batch on a
				// loaded machine): run it alone before giving up
				replayTimeScale = 4
				res2, out2 := nativeReplay(spec.Property, pkg, []ReplayRun{r}, file+".retry")
				replayTimeScale = 1
				os.Remove(file + ".retry")
				if res2[r.ID] == "PASSED" {
					ok++
					continue
				}
				tail := out + out2
				if len(tail) > 1500 {
					tail = tail[len(tail)-1500:]
				}
				return ok, fmt.Sprintf("no result for %s %v (go test output tail: %s)", r.Fn, r.Args, tail)
			default:
				// timing-dependent harnesses (real timers natively): retry alone with a slower clock
				replayTimeScale = 8
				res2, _ := nativeReplay(spec.Property, pkg, []ReplayRun{r}, file+".retry")
				replayTimeScale = 1
				os.Remove(file + ".retry")
				if res2[r.ID] == "PASSED" {
					ok++
					continue
				}
				return ok, fmt.Sprintf("%s %v inputs=%v: %s", r.Fn, r.Args, r.Nondet, res[r.ID])
			}
		}
	}
	return ok, ""
}
