package main

import (
	"go/types"

	"golang.org/x/tools/go/ssa"
)

// Package initialisers are not run wholesale. A global is initialised on first access by
// executing, inside the package's synthetic init function, the backward slice of the stores
// into it: the store itself, the instructions defining its operands, and the stores/map updates
// into freshly allocated objects those operands point to.

type initFrame struct {
	fr   *frame
	done map[ssa.Instruction]bool
	busy map[ssa.Instruction]bool
}

var initStoresCache = map[*ssa.Global][]*ssa.Store{}
var initStoresMu = make(chan struct{}, 1)

func (in *Interp) initGlobal(g *ssa.Global, cell *Value) {
	pkg := g.Pkg
	if pkg == nil {
		return
	}
	initFn := pkg.Func("init")
	if initFn == nil || len(initFn.Blocks) == 0 {
		return
	}
	initStoresMu <- struct{}{}
	stores, ok := initStoresCache[g]
	if !ok {
		for _, b := range initFn.Blocks {
			for _, ins := range b.Instrs {
				if st, ok := ins.(*ssa.Store); ok && rootGlobal(st.Addr) == g {
					stores = append(stores, st)
				}
			}
		}
		initStoresCache[g] = stores
	}
	<-initStoresMu
	if len(stores) == 0 {
		return
	}
	fi := in.eng.info(initFn)
	fr := &frame{in: in, fn: initFn, fi: fi, regs: make([]Value, fi.nregs)}
	ifr := &initFrame{fr: fr, done: map[ssa.Instruction]bool{}, busy: map[ssa.Instruction]bool{}}
	saved := in.path.ninstr
	for _, st := range stores {
		in.initExec(ifr, st)
	}
	_ = saved
}

// rootGlobal returns the global that addr is derived from through FieldAddr/IndexAddr, if any.
func rootGlobal(v ssa.Value) *ssa.Global {
	for {
		switch x := v.(type) {
		case *ssa.Global:
			return x
		case *ssa.FieldAddr:
			v = x.X
		case *ssa.IndexAddr:
			v = x.X
		default:
			return nil
		}
	}
}

// initEval makes sure the SSA value v has been computed in the init frame.
func (in *Interp) initEval(ifr *initFrame, v ssa.Value) {
	switch v.(type) {
	case *ssa.Const, *ssa.Global, *ssa.Function, *ssa.Builtin, nil:
		return
	}
	ins, ok := v.(ssa.Instruction)
	if !ok {
		in.abort("unsupported: init slice reaches %T", v)
	}
	in.initExec(ifr, ins)
}

func (in *Interp) initExec(ifr *initFrame, ins ssa.Instruction) {
	if ifr.done[ins] {
		return
	}
	if ifr.busy[ins] {
		return
	}
	ifr.busy[ins] = true
	if _, isPhi := ins.(*ssa.Phi); isPhi {
		in.abort("unsupported: phi in global initialiser slice (%s)", ins.Parent().Pkg.Pkg.Path())
	}
	var ops []*ssa.Value
	for _, op := range ins.Operands(ops) {
		if *op != nil {
			in.initEval(ifr, *op)
		}
	}
	fr := ifr.fr
	fr.block = ins.Block()
	in.visitInstr(fr, ins)
	ifr.done[ins] = true
	// for freshly created objects, run the initialising stores that refer to them
	switch v := ins.(type) {
	case *ssa.Alloc, *ssa.MakeMap, *ssa.MakeSlice, *ssa.FieldAddr, *ssa.IndexAddr, *ssa.MakeChan:
		if _, isAddr := ins.(*ssa.FieldAddr); isAddr {
			if rootGlobal(v.(ssa.Value)) != nil {
				break
			}
		}
		if _, isAddr := ins.(*ssa.IndexAddr); isAddr {
			if rootGlobal(v.(ssa.Value)) != nil {
				break
			}
		}
		refs := v.(ssa.Value).Referrers()
		if refs == nil {
			break
		}
		for _, r := range *refs {
			switch r := r.(type) {
			case *ssa.Store:
				if r.Addr == v.(ssa.Value) {
					in.initExec(ifr, r)
				}
			case *ssa.MapUpdate:
				if r.Map == v.(ssa.Value) {
					in.initExec(ifr, r)
				}
			case *ssa.FieldAddr:
				if r.X == v.(ssa.Value) {
					in.initExec(ifr, r)
				}
			case *ssa.IndexAddr:
				if r.X == v.(ssa.Value) {
					in.initExec(ifr, r)
				}
			}
		}
	}
}

var _ = types.Typ
