package main

import (
	"go/types"
)

// sameState implements verifrt.SameState: structural equality of two values of the same type,
// following pointers, ignoring function values and pointer identity, and treating an absent map entry
// like a present one whose value is "empty" (nil / zero / empty map or slice) — no reader of the
// allocator or announcer state can tell them apart. Keys may be symbolic; matching decides equalities.
func (in *Interp) sameState(t types.Type, a, b Value, depth int) *Term {
	if depth > 12 {
		in.abort("SameState: depth exceeded")
	}
	switch u := underlying(t).(type) {
	case *types.Basic:
		return in.eqVal(a, b)
	case *types.Pointer:
		pa, pb := a.(*Value), b.(*Value)
		if pa == nil || pb == nil {
			return Bool(pa == nil && pb == nil)
		}
		if pa == pb {
			return tTrue
		}
		return in.sameState(u.Elem(), *pa, *pb, depth+1)
	case *types.Struct:
		sa, sb := a.(Struct), b.(Struct)
		r := tTrue
		for i := 0; i < u.NumFields(); i++ {
			r = And(r, in.sameState(u.Field(i).Type(), sa[i], sb[i], depth+1))
			if r.IsFalse() {
				return r
			}
		}
		return r
	case *types.Array:
		sa, sb := a.(Array), b.(Array)
		r := tTrue
		for i := range sa {
			r = And(r, in.sameState(u.Elem(), sa[i], sb[i], depth+1))
		}
		return r
	case *types.Slice:
		sa, sb := a.(Slice), b.(Slice)
		if len(sa) != len(sb) {
			return tFalse
		}
		r := tTrue
		for i := range sa {
			r = And(r, in.sameState(u.Elem(), sa[i], sb[i], depth+1))
			if r.IsFalse() {
				return r
			}
		}
		return r
	case *types.Map:
		ma, mb := a.(*Map), b.(*Map)
		return And(in.mapIncluded(u, ma, mb, depth), in.mapIncluded(u, mb, ma, depth))
	case *types.Interface:
		ia, ib := a.(Iface), b.(Iface)
		if ia.t == nil || ib.t == nil {
			return Bool(ia.t == nil && ib.t == nil)
		}
		if !types.Identical(ia.t, ib.t) {
			return tFalse
		}
		return in.sameState(ia.t, ia.v, ib.v, depth+1)
	case *types.Signature, *types.Chan:
		return tTrue
	}
	in.abort("SameState: unsupported type %s", t)
	return nil
}

// isEmptyState: nil / zero scalar / empty container.
func (in *Interp) isEmptyState(t types.Type, v Value) *Term {
	switch u := underlying(t).(type) {
	case *types.Basic:
		return in.eqVal(v, zero(t))
	case *types.Pointer:
		return Bool(v.(*Value) == nil)
	case *types.Map:
		m := v.(*Map)
		if m == nil {
			return tTrue
		}
		r := tTrue
		for _, e := range m.order {
			if !e.deleted {
				r = And(r, in.isEmptyState(u.Elem(), e.val))
			}
		}
		return r
	case *types.Slice:
		return Bool(len(v.(Slice)) == 0)
	case *types.Interface:
		return Bool(v.(Iface).t == nil)
	}
	return tFalse
}

// mapIncluded: every non-empty entry of a has an equal entry in b.
func (in *Interp) mapIncluded(t *types.Map, a, b *Map, depth int) *Term {
	if a == nil {
		return tTrue
	}
	r := tTrue
	for _, e := range a.order {
		if e.deleted {
			continue
		}
		empty := in.isEmptyState(t.Elem(), e.val)
		if empty.IsTrue() {
			continue
		}
		var f *mapEntry
		if b != nil {
			f = in.mapFind(b, e.key)
		}
		if f == nil {
			r = And(r, empty)
		} else {
			r = And(r, Or(empty, in.sameState(t.Elem(), e.val, f.val, depth+1)))
		}
		if r.IsFalse() {
			return r
		}
	}
	return r
}

// deepEqual implements reflect.DeepEqual on engine values (strict: nil and empty containers differ).
func (in *Interp) deepEqual(t types.Type, a, b Value, depth int) *Term {
	if depth > 40 {
		in.abort("DeepEqual: depth exceeded")
	}
	switch u := underlying(t).(type) {
	case *types.Basic:
		return in.eqVal(a, b)
	case *types.Pointer:
		pa, pb := a.(*Value), b.(*Value)
		if pa == nil || pb == nil {
			return Bool(pa == nil && pb == nil)
		}
		if pa == pb {
			return tTrue
		}
		return in.deepEqual(u.Elem(), *pa, *pb, depth+1)
	case *types.Struct:
		sa, sb := a.(Struct), b.(Struct)
		r := tTrue
		for i := 0; i < u.NumFields(); i++ {
			r = And(r, in.deepEqual(u.Field(i).Type(), sa[i], sb[i], depth+1))
			if r.IsFalse() {
				return r
			}
		}
		return r
	case *types.Array:
		sa, sb := a.(Array), b.(Array)
		r := tTrue
		for i := range sa {
			r = And(r, in.deepEqual(u.Elem(), sa[i], sb[i], depth+1))
		}
		return r
	case *types.Slice:
		sa, sb := a.(Slice), b.(Slice)
		if (sa == nil) != (sb == nil) || len(sa) != len(sb) {
			return tFalse
		}
		r := tTrue
		for i := range sa {
			r = And(r, in.deepEqual(u.Elem(), sa[i], sb[i], depth+1))
			if r.IsFalse() {
				return r
			}
		}
		return r
	case *types.Map:
		ma, mb := a.(*Map), b.(*Map)
		if (ma == nil) != (mb == nil) {
			return tFalse
		}
		if ma == nil || ma == mb {
			return tTrue
		}
		if ma.Len() != mb.Len() {
			return tFalse
		}
		r := tTrue
		for _, e := range ma.order {
			if e.deleted {
				continue
			}
			f := in.mapFind(mb, e.key)
			if f == nil {
				return tFalse
			}
			r = And(r, in.deepEqual(u.Elem(), e.val, f.val, depth+1))
			if r.IsFalse() {
				return r
			}
		}
		return r
	case *types.Interface:
		ia, ib := a.(Iface), b.(Iface)
		if ia.t == nil || ib.t == nil {
			return Bool(ia.t == nil && ib.t == nil)
		}
		if !types.Identical(ia.t, ib.t) {
			return tFalse
		}
		if _, op := ia.v.(Opaque); op {
			return tTrue
		}
		return in.deepEqual(ia.t, ia.v, ib.v, depth+1)
	case *types.Signature:
		return Bool(isNilFunc(a) && isNilFunc(b))
	case *types.Chan:
		return Bool(a.(*Chan) == b.(*Chan))
	}
	in.abort("DeepEqual: unsupported type %s", t)
	return nil
}
