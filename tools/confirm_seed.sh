#!/bin/bash
# usage: confirm_seed.sh <worktree> <seed-dir (contains patch.diff, demo_test.go)>
# Confirms: patch applies, builds, existing tests of touched packages (+controller, speaker) pass,
# demo fails with the patch and passes without.
set -u
WT="$1"; SD="$2"
export GOFLAGS=-mod=readonly GOPROXY=off GOTOOLCHAIN=auto
cd "$WT" || exit 2
git checkout -q -- . ; rm -f $(git ls-files --others --exclude-standard | grep 'zz_demo' ) 2>/dev/null
git apply --check "$SD/patch.diff" || { echo "CONFIRM: patch does not apply"; exit 1; }
place=$(head -1 "$SD/demo_test.go" | sed -n 's,^// place at: *,,p' | tr -d ' \r')
[ -z "$place" ] && { echo "CONFIRM: no place line"; exit 1; }
pkgs=$(grep '^+++ b/' "$SD/patch.diff" | sed 's,^+++ b/,,' | xargs -n1 dirname | sort -u | sed 's,^,./,' | tr '\n' ' ')
demopkg=./$(dirname "$place")
git apply "$SD/patch.diff"
go build ./... >/dev/null 2>&1 || { echo "CONFIRM: build fails with patch"; git checkout -q -- .; exit 1; }
if ! go test -vet=off -count=1 $pkgs ./controller/ ./speaker/ ./internal/allocator/... ./internal/config/ ./internal/layer2/ ./internal/bgp/native/ 2>&1 | grep -v '^ok\|no test files' | grep -q .; then echo "CONFIRM: existing tests pass with patch"; else echo "CONFIRM: EXISTING TESTS FAIL with patch"; go test -vet=off -count=1 $pkgs ./controller/ ./speaker/ 2>&1 | grep -v '^ok' | tail -5; git checkout -q -- .; exit 1; fi
cp "$SD/demo_test.go" "$place"
if go test -vet=off -count=1 -run 'Demo' "$demopkg" >/tmp/confirm_with.$$ 2>&1; then echo "CONFIRM: DEMO PASSES WITH PATCH (bad)"; rm -f "$place"; git checkout -q -- .; exit 1; else echo "CONFIRM: demo fails with patch"; fi
git checkout -q -- .
if go test -vet=off -count=1 -run 'Demo' "$demopkg" >/tmp/confirm_without.$$ 2>&1; then echo "CONFIRM: demo passes without patch"; else echo "CONFIRM: DEMO FAILS WITHOUT PATCH (bad)"; tail -5 /tmp/confirm_without.$$; rm -f "$place"; exit 1; fi
rm -f "$place" /tmp/confirm_with.$$ /tmp/confirm_without.$$
echo "CONFIRM: OK"
