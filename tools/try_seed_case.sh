#!/bin/bash
# usage: try_seed_case.sh <patch.diff> <Cxx> <tier> <only-substring>
P="$1"; ID="$2"; TIER="$3"; ONLY="$4"
cd /repo || exit 2
[ -n "$(git status --porcelain)" ] && { echo "repo dirty"; exit 2; }
git apply "$P" || exit 2
cd /verif && timeout 900 .work/gosx -only "$ONLY" check checks/$ID.json $TIER > /tmp/try_seed.out 2>&1; rc=$?
git -C /repo checkout -q -- .
grep -E '^(VIOLATION|INCONCLUSIVE|UNCONFIRMED|KNOWN-FINDING|  |C[0-9]+ )' /tmp/try_seed.out | grep -v vacuous | cut -c1-330 | head -8
echo "exit=$rc"
