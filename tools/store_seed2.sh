#!/bin/bash
# usage: store_seed2.sh <Cxx> <mN> - round 2: confirms the seed delivered under /tmp/r2/out_<Cxx>/<mN> in the
# scratch worktree /tmp/r2/wt_<Cxx> and stores it under /verif/seeded/<Cxx>-<mN>.
ID="$1"; M="$2"
R=${R:-/tmp/r2}; WT=$R/wt_$ID; SD=$R/out_$ID/$M; OUT=/verif/seeded/$ID-$M
export GOFLAGS=-mod=readonly GOPROXY=off GOTOOLCHAIN=auto
cd $WT || exit 2
git checkout -q -- . ; git ls-files --others --exclude-standard | grep 'zz_demo' | xargs -r rm -f
fail(){ echo "NOT STORED $ID $M: $1"; git checkout -q -- .; git ls-files --others --exclude-standard | grep 'zz_demo' | xargs -r rm -f; exit 1; }
[ -f $SD/patch.diff ] && [ -f $SD/demo_test.go ] || fail "files missing"
dir=$(head -1 $SD/demo_test.go | sed -n 's,^// dir: *,,p' | tr -d ' \r')
[ -n "$dir" ] || fail "no dir line"
place=$dir/zz_demo_${ID}_${M}_test.go
stub(){ [ -f internal/bgp/frr/docker_test.go ] && grep -v '^//go:build' /verif/harness/internal/bgp/frr/docker_test.go > internal/bgp/frr/docker_test.go; }
git apply --check $SD/patch.diff || fail "patch does not apply"
pkgs=$(grep '^+++ b/' $SD/patch.diff | sed 's,^+++ b/,,' | xargs -n1 dirname | sed 's,/templates$,,' | sort -u | sed 's,^,./,' | tr '\n' ' ')
git apply $SD/patch.diff
go build ./... >/dev/null 2>&1 || fail "build fails with patch"
go vet $pkgs >/dev/null 2>&1 || echo "note: go vet complains"
tp=$(echo $pkgs ./controller/ ./speaker/ ./internal/allocator/... ./internal/config/ ./internal/layer2/ ./internal/bgp/native/ | tr ' ' '\n' | grep -v '^./internal/bgp/frr$' | sort -u | tr '\n' ' ')
if go test -vet=off -count=1 -skip TestManager $tp 2>&1 | grep -v '^ok\|no test files' | grep -q .; then go test -vet=off -count=1 -skip TestManager $tp 2>&1 | grep -v '^ok\|no test files' | tail -5; fail "existing tests fail with patch"; fi
stub
cp $SD/demo_test.go $place
if go test -vet=off -count=1 -run 'Demo' ./$dir >$R/with.$$ 2>&1; then fail "demo passes with patch"; fi
grep -q 'build failed' $R/with.$$ && { tail -5 $R/with.$$; fail "demo does not build"; }
git checkout -q -- .
stub
if ! go test -vet=off -count=1 -run 'Demo' ./$dir >$R/without.$$ 2>&1; then tail -5 $R/without.$$; fail "demo fails without patch"; fi
rm -f $place $R/with.$$ $R/without.$$; git checkout -q -- .
mkdir -p $OUT; cp $SD/patch.diff $SD/demo_test.go $OUT/; [ -f $SD/README.md ] && cp $SD/README.md $OUT/
python3 - "$ID" "$M" "$OUT" "$dir" <<'PY'
import json,sys
pid,m,out,d=sys.argv[1:5]
meta={"property":pid,"seed":m,"round":int(__import__("os").environ.get("ROUND","2")),"source":"independent sub-agent given only the property text and a scratch worktree",
 "demo_dir":d,
 "confirmed_by":"tools/store_seed2.sh: patch applies to /repo HEAD, go build ./... ok, existing tests of touched packages + controller, speaker, allocator, config, layer2, native pass (internal/bgp/frr tests need Docker and cannot run), demo test fails with the patch and passes without",
 "needs_to_manifest":"see README.md (written by the sub-agent)","detected_by":"see results.txt"}
json.dump(meta,open(out+'/meta.json','w'),indent=1)
PY
echo "stored $OUT"
