#!/bin/bash
# usage: seed_matrix.sh <seed-id> <check-id> [tier] — runs one seed against one check; prints one result line
S="$1"; C="$2"; T="${3:-quick}"
out=$(/verif/tools/try_seed.sh /verif/seeded/$S/patch.diff $C $T 2>&1)
rc=$(echo "$out" | grep -o 'exit=[0-9]*' | tail -1)
v=$(echo "$out" | grep -c '^VIOLATION')
echo "$S vs $C/$T: $rc violations=$v $(echo "$out" | grep -E '^(INCONCLUSIVE|UNCONFIRMED)' | head -1 | cut -c1-160)"
