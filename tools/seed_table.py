#!/usr/bin/env python3
# Prints a markdown table of all seeded changes from seeded/*/results.txt (latest result per seed x check).
import glob, os, re, json
rows = []
for d in sorted(glob.glob('/verif/seeded/C*-m*')):
    sid = os.path.basename(d)
    latest = {}
    if os.path.exists(d + '/results.txt'):
        for l in open(d + '/results.txt'):
            m = re.match(r'(\S+) vs (\S+)/(\S+): (.*)', l.strip())
            if not m or 'does not apply' in m.group(4):
                continue
            latest[(m.group(2), m.group(3))] = m.group(4)
    caught, missed, first = [], [], ''
    for (c, t), r in latest.items():
        tag = c if t == 'quick' else f'{c} ({t})'
        if r.startswith('exit=1'):
            caught.append(tag)
            if not first:
                mm = re.search(r'violations=\d+\s+(\S+?\(.*?\)): (.*?)( \(native|$)', r)
                if mm:
                    first = f'{mm.group(1)}: {mm.group(2)}'
        elif r.startswith('exit=0'):
            missed.append(tag)
    what = ''
    if os.path.exists(d + '/README.md'):
        what = open(d + '/README.md').read().split('\n')[0].lstrip('# ').strip()
        what = re.sub(r'^C\d\d\s*/\s*(change\s*)?m?\d\s*[-—:]+\s*', '', what)
    rows.append((sid, what, caught, missed, first))
print('| seed | change | caught by | not by | first violation reported |')
print('|---|---|---|---|---|')
for sid, what, caught, missed, first in rows:
    print(f"| {sid} | {what[:100]} | {', '.join(sorted(set(caught))) or '—'} | {', '.join(sorted(set(missed)))} | {first[:110]} |")
n = len(rows)
own = sum(1 for sid, _, c, _, _ in rows if any(x.startswith(sid[:3]) for x in c))
anyc = sum(1 for _, _, c, _, _ in rows if c)
print(f"\n{n} seeded changes; {anyc} caught by at least one registered check with native confirmation, {own} of them by the check of the property they were written against.")
