#!/bin/bash
# usage: solver_diff.sh <Cxx>... - runs the quick tier of each check with z3 4.8.12, z3 5.1.0 (z3-new) and cvc5
# and prints the exploration statistics side by side; the verdicts and the path / pruned / infeasible
# counts must agree (a disagreement means one solver answered a feasibility or assertion query differently).
cd /verif
mkdir -p /tmp/solverdiff
for c in "$@"; do
  for s in "z3 -in" "z3-new -in" "cvc5 --incremental --produce-models"; do
    tag=$(echo $s | cut -d' ' -f1)
    out=$(VERIF_EVIDENCE_DIR=/tmp/solverdiff timeout 3000 .work/gosx -noreplay -solver "$s" check checks/$c.json quick 2>&1 | grep "^$c quick" | sed -E 's/decisions=[0-9]+ //; s/queries=[0-9]+ //; s/solver=[0-9.]+s/solver=T/; s/wall=.*//; s/instr=[0-9]+ //')
    t=$(VERIF_EVIDENCE_DIR=/tmp/solverdiff true)
    echo "$c [$tag] $out"
  done
done
