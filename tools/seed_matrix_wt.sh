#!/bin/bash
# usage: seed_matrix_wt.sh <seed-id> <check-id> [tier] — like seed_matrix.sh but in a scratch worktree of
# /repo (does not touch /repo's working tree); prints one result line and appends it to seeded/<id>/results.txt
S="$1"; C="$2"; T="${3:-quick}"
WT=/tmp/seedwt_$$
git -C /repo worktree add -q --detach $WT HEAD || exit 2
P=/verif/seeded/$S/patch.diff
[ -f /verif/seeded/$S/patch.rebased.diff ] && P=/verif/seeded/$S/patch.rebased.diff
if git -C $WT apply $P 2>/dev/null; then
  out=$(cd /verif && VERIF_REPO=$WT VERIF_DIR=/verif VERIF_EVIDENCE_DIR=/tmp/seed_evidence timeout 1500 .work/gosx check checks/$C.json $T 2>&1); rc=$?
  v=$(echo "$out" | grep -c '^VIOLATION')
  line="$S vs $C/$T: exit=$rc violations=$v $(echo "$out" | grep -E '^  ' | head -1 | cut -c1-200)"
else
  line="$S vs $C/$T: patch does not apply to the current tree"
fi
git -C /repo worktree remove --force $WT
echo "$line"
echo "$line" >> /verif/seeded/$S/results.txt
