#!/bin/bash
# usage: store_seed.sh <Cxx> <mN> — confirms the seed in its scratch worktree and stores it under /verif/seeded/
ID="$1"; M="$2"
SD=/tmp/wt/$ID/_out/$M
OUT=/verif/seeded/$ID-$M
res=$(/verif/tools/confirm_seed.sh /tmp/wt/$ID $SD 2>&1)
echo "$res" | tail -4
if echo "$res" | grep -q 'CONFIRM: OK'; then
  mkdir -p $OUT
  cp $SD/patch.diff $SD/demo_test.go $OUT/
  [ -f $SD/README.md ] && cp $SD/README.md $OUT/
  python3 - "$ID" "$M" "$OUT" <<'PY'
import json,sys,re
pid,m,out=sys.argv[1:4]
readme=open(out+'/README.md').read() if __import__('os').path.exists(out+'/README.md') else ''
meta={"property":pid,"seed":m,"source":"independent sub-agent given only the property text and a scratch worktree",
 "confirmed_by":"tools/confirm_seed.sh: patch applies to /repo HEAD, go build ./... ok, existing tests of touched packages + controller, speaker, allocator, config, layer2, native pass, demo test fails with the patch and passes without",
 "needs_to_manifest":"see README.md (written by the sub-agent)","detected_by":"(filled in by tools/seed_matrix.sh)"}
json.dump(meta,open(out+'/meta.json','w'),indent=1)
PY
  echo "stored $OUT"
else
  echo "NOT STORED $ID $M"
fi
