#!/usr/bin/env python3
# Prints the as-built overview table of DESIGN section 10.1 from checks/*.json and evidence/*.json.
import json, itertools
def ncases(cs):
    n = 0
    for c in cs:
        k = 1
        for a in c['args']:
            k *= max(1, len(a))
        n += k
    return n
print('| id | harness entry points (real code reached through them is listed per run in `evidence/<id>.json`) | quick cases | thorough cases | paths (last quick run) | wall s |')
print('|---|---|---|---|---|---|')
for i in range(1, 21):
    pid = 'C%02d' % i
    d = json.load(open('/verif/checks/%s.json' % pid))
    fns = sorted({c['fn'] for t in d['cases'] for c in d['cases'][t]})
    try:
        e = json.load(open('/verif/evidence/%s.json' % pid))
        paths, wall = e['coverage'].get('states', '?'), round(e.get('wall_s', 0))
        if e.get('tier') != 'quick':
            paths, wall = '%s (%s tier)' % (paths, e.get('tier')), wall
    except Exception:
        paths, wall = '?', '?'
    print('| %s | %s | %d | %d | %s | %s |' % (pid, ', '.join('`%s`' % f for f in fns), ncases(d['cases']['quick']), ncases(d['cases']['thorough']), paths, wall))
