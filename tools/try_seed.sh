#!/bin/bash
# usage: try_seed.sh <patch.diff> <Cxx> [tier]   — applies the patch to /repo, runs the check, reverts.
set -u
P="$1"; ID="$2"; TIER="${3:-quick}"
cd /repo || exit 2
[ -n "$(git status --porcelain)" ] && { echo "repo dirty"; exit 2; }
git apply "$P" || exit 2
/verif/checks/run "$ID" "$TIER" > /tmp/try_seed.out 2>&1; rc=$?
git -C /repo checkout -q -- .
grep -E '^(VIOLATION|INCONCLUSIVE|UNCONFIRMED|KNOWN-FINDING|C[0-9]+ )' /tmp/try_seed.out | cut -c1-300 | head -8
echo "exit=$rc"
