#!/bin/bash
# try_seed.sh <seed|-> <prop> <pkg> <fn> <args-json> : one case against a worktree with the seed applied ("-" = unchanged tree)
seed=$1; prop=$2; pkg=$3; fn=$4; args=$5
spec=/tmp/try_$$.json
python3 - "$prop" "$pkg" "$fn" "$args" > $spec <<'PY'
import json,sys
d=json.load(open('/verif/checks/%s.json'%sys.argv[1]))
d['cases']={'quick':[{'pkg':sys.argv[2],'fn':sys.argv[3],'args':json.loads(sys.argv[4])}]}
d['reach_required']=[]
print(json.dumps(d))
PY
if [ "$seed" = "-" ]; then
  VERIF_EVIDENCE_DIR=/tmp/seed_evidence timeout ${T:-1500} /verif/.work/gosx check $spec quick 2>&1 | cut -c1-${W:-300} | tail -${N:-4}
else
  WT=/tmp/seedwt_try_$$; git -C /repo worktree add -q --detach $WT HEAD
  p=/verif/seeded/$seed/patch.diff; [ -f /verif/seeded/$seed/patch.rebased.diff ] && p=/verif/seeded/$seed/patch.rebased.diff
  git -C $WT apply $p || echo "APPLY FAILED"
  VERIF_REPO=$WT VERIF_EVIDENCE_DIR=/tmp/seed_evidence timeout ${T:-1500} /verif/.work/gosx check $spec quick 2>&1 | cut -c1-${W:-300} | tail -${N:-4}
  git -C /repo worktree remove --force $WT
fi
rm -f $spec
