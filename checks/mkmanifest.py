#!/usr/bin/env python3
# Regenerates /verif/MANIFEST.json from checks/*.json (claimed properties) and checks/not_applicable.json.
import json, glob, os
root = '/verif'
props = [json.loads(l)['id'] for l in open(f'{root}/properties.jsonl')]
na = json.load(open(f'{root}/checks/not_applicable.json'))
checks = []
claimed = set()
for p in sorted(glob.glob(f'{root}/checks/C*.json')):
    s = json.load(open(p))
    m = s.get('manifest')
    if not m or s['property'] in na:
        continue
    pid = s['property']
    claimed.add(pid)
    c = {
        "property_id": pid,
        "quick_cmd": f"checks/run {pid} quick",
        "evidence_file": f"/verif/evidence/{pid}.json",
        "replay_cmd_template": "cd /repo && VERIF_REPLAY={path} go test -tags verif -vet=off -count=1 -overlay /verif/.work/overlay.json -run '^TestVerifReplay$' -v ./<pkg named in the replay file>",
        "engine": "gosx",
        "level_claimed": {"category": "model_checking", "text": m['level_text'], "design_ref": m.get('design_ref', 'DESIGN.md section 3')},
        "level_note": m['level_note'],
        "technique": m['technique'],
    }
    if 'thorough' in s.get('cases', {}):
        c["thorough_cmd"] = f"checks/run {pid} thorough"
    checks.append(c)
man = {
    "version": 1,
    "setup_cmd": "mkdir -p /verif/.work /verif/evidence && cd /verif/engine && GOFLAGS=-mod=mod GOPROXY=off GOTOOLCHAIN=auto go build -o /verif/.work/gosx .",
    "hooks": {"guard": "verif", "enable": "harness files (//go:build verif) and the overlay-only package internal/verifrt are injected with go/packages Overlay and `go test -overlay`; nothing guarded is committed to /repo",
              "baseline_off_cmd": "cd /repo && GOFLAGS=-mod=readonly GOPROXY=off go test -vet=off -count=1 ./...",
              "source_commits": [], "add_only": True},
    "engines": [{"name": "gosx", "path": "/verif/engine", "serves_properties": sorted(claimed),
                 "kind_free_text": "symbolic executor for go/ssa written for this task: concrete heap shape, symbolic scalar leaves as SMT bit-vector terms, forking by re-execution, z3 -in per worker, native replay of counterexamples"}],
    "checks": checks,
    "not_applicable": [{"property_id": p, "reason": na.get(p, "check not built yet (engine under construction); see DESIGN.md section 7")} for p in props if p not in claimed],
    "notes": "fix: commits in /repo for genuine defects found by the checks are listed in /verif/known_findings.json",
}
json.dump(man, open(f'{root}/MANIFEST.json', 'w'), indent=1)
print("claimed:", sorted(claimed))
